//! Executes one step on the real queue and on the reference model, and evaluates the oracles.
//! Every oracle failure is tagged with the set of properties whose statement it implements.

use crate::hashers::DynState;
use crate::model::Model;
use crate::queue::*;
use crate::sources::HintedSource;
use crate::steps::*;
use crate::types::*;
use std::collections::BTreeMap;

pub const fn c(n: u32) -> u32 {
    1 << n
}
pub const C01: u32 = c(1);
pub const C02: u32 = c(2);
pub const C03: u32 = c(3);
pub const C04: u32 = c(4);
pub const C06: u32 = c(6);
pub const C07: u32 = c(7);
pub const C08: u32 = c(8);
pub const C09: u32 = c(9);
pub const C10: u32 = c(10);
pub const C11: u32 = c(11);
pub const C12: u32 = c(12);
pub const C13: u32 = c(13);
pub const C14: u32 = c(14);
pub const C15: u32 = c(15);
pub const C16: u32 = c(16);
pub const C17: u32 = c(17);
pub const C18: u32 = c(18);

pub fn prop_mask(id: &str) -> u32 {
    let n: u32 = id.trim_start_matches('C').parse().unwrap_or(0);
    c(n)
}
pub fn mask_names(m: u32) -> String {
    (1..=18).filter(|i| m & c(*i) != 0).map(|i| format!("C{:02}", i)).collect::<Vec<_>>().join("|")
}

#[derive(Clone, Debug)]
pub struct Fail {
    pub props: u32,
    /// stable short name of the oracle (used to match a replayed failure with the original)
    pub class: &'static str,
    pub msg: String,
}

pub struct Ctx {
    pub universe: u32,
    pub fails: Vec<Fail>,
    /// a leaked iter_mut guard rewrote priorities: order oracles are off until a rebuild
    pub order_suspended: bool,
    /// ledger tokens legitimately leaked by guards the harness itself forgot
    pub expected_leak: u64,
    pub saw_drain_or_clear: bool,
    pub step_no: u32,
    /// digest of this step's return values: exact, and insensitive to the choice among ties
    pub exact: u64,
    pub loose: u64,
    pub probes: BTreeMap<&'static str, u64>,
    /// evaluate the full-drain oracles after this step
    pub deep: bool,
    /// use the snapshot hook (INV-T for C04, probes)
    pub snapshot: bool,
    /// cheap mode for big queues: skip per-step full scans
    pub light: bool,
    /// signatures of the small states visited (size, heap->slot permutation, priority ranks)
    pub sigs: Vec<u64>,
    /// this step wrote a priority through an iter_mut reference after the iterator was gone
    pub late_write: bool,
}

impl Ctx {
    pub fn new(universe: u32) -> Ctx {
        Ctx {
            universe,
            fails: Vec::new(),
            order_suspended: false,
            expected_leak: 0,
            saw_drain_or_clear: false,
            step_no: 0,
            exact: 0,
            loose: 0,
            probes: BTreeMap::new(),
            deep: true,
            snapshot: true,
            light: false,
            sigs: Vec::new(),
            late_write: false,
        }
    }
    pub fn fail(&mut self, props: u32, class: &'static str, msg: String) {
        self.fails.push(Fail { props, class, msg });
    }
    pub fn probe(&mut self, name: &'static str) {
        *self.probes.entry(name).or_insert(0) += 1;
    }
    fn ret(&mut self, x: u64) {
        self.exact = crate::rng::mix(self.exact, x);
        self.loose = crate::rng::mix(self.loose, x);
    }
    fn ret_exact_only(&mut self, x: u64) {
        self.exact = crate::rng::mix(self.exact, x);
    }
    fn ret_opt_i32(&mut self, x: Option<i32>) {
        self.ret(match x {
            None => u64::MAX,
            Some(v) => v as u32 as u64,
        })
    }
    /// an (item, priority) result where the item may legitimately differ among ties
    fn ret_elem(&mut self, x: Option<P3>) {
        match x {
            None => self.ret(u64::MAX),
            Some((id, p, pl)) => {
                self.ret(p as u32 as u64);
                self.ret_exact_only(((id as u64) << 32) | pl as u64);
            }
        }
    }
}

macro_rules! expect {
    ($cx:expr, $props:expr, $class:expr, $cond:expr, $($fmt:tt)*) => {
        if !($cond) {
            $cx.fail($props, $class, format!($($fmt)*));
        }
    };
}

pub fn ord_tag(k: Kind) -> u32 {
    match k {
        Kind::Pq => C01,
        Kind::Dpq => C02,
    }
}

/// property tags of the content oracles after a step of this family (always includes C03)
pub fn step_tags(st: &Step) -> u32 {
    C03 | match st.fam() {
        Fam::Push | Fam::Change | Fam::ChangeBy => C12,
        Fam::PushInc | Fam::PushDec => C11 | C12,
        Fam::PopIf | Fam::Retain | Fam::IterMut | Fam::IterMutLeak => C08,
        Fam::Drain | Fam::DrainLeak | Fam::Clear => C16,
        Fam::Extend | Fam::Append | Fam::FromVec | Fam::FromIter | Fam::Convert => C07,
        Fam::CloneSwap | Fam::EqSelf | Fam::CloneFrom => C14,
        Fam::Serde => C15,
        Fam::Reserve | Fam::TryReserve | Fam::Shrink => C17,
        Fam::Iter | Fam::Adapt | Fam::IntoVec => C13,
        Fam::Sorted | Fam::SortedEp => C06,
        _ => 0,
    }
}

/// property tags of "this step panicked although all user code is well behaved"
pub fn panic_tags(st: &Step) -> u32 {
    C04 | match st.fam() {
        Fam::Extend | Fam::FromIter | Fam::FromVec | Fam::Append | Fam::Convert => C07,
        Fam::Iter | Fam::Adapt | Fam::IntoVec => C13,
        Fam::Sorted | Fam::SortedEp => C06,
        Fam::Retain | Fam::PopIf => C08,
        Fam::Drain | Fam::DrainLeak | Fam::Clear => C16,
        Fam::CloneSwap | Fam::CloneFrom | Fam::EqSelf => C14,
        Fam::Reserve | Fam::Shrink => C17,
        Fam::IterMut | Fam::IterMutLeak => C09,
        Fam::Serde => C15,
        Fam::TryReserve => C17,
        Fam::PushInc | Fam::PushDec => C11,
        _ => 0,
    }
}

fn mkpairs(v: &[P3]) -> Vec<(Key, Prio)> {
    v.iter().map(|&(k, p, pl)| (Key::new(k, pl), Prio::new(p))).collect()
}

// ------------------------------------------------------------------------------------------
// iterator programs

pub trait ProgIt: Sized {
    type T;
    fn nx(&mut self) -> Option<Self::T>;
    /// None = this iterator cannot be advanced from the back
    fn nb(&mut self) -> Option<Option<Self::T>>;
    fn nth_f(&mut self, k: usize) -> Option<Self::T>;
    fn nth_b(&mut self, k: usize) -> Option<Option<Self::T>>;
    /// None = this iterator does not declare an exact size
    fn ln(&self) -> Option<usize>;
    fn sh(&self) -> (usize, Option<usize>);
    /// internal iteration; `f` runs inside the closure handed to for_each
    fn rest_each(self, f: &mut dyn FnMut(&mut Self::T)) -> Vec<Self::T>;
    fn rest_count(self) -> usize;
    fn rest_last(self) -> Option<Self::T>;
    fn rest_collect(self) -> Vec<Self::T>;
    /// (visited from the back?, elements in the order visited)
    fn rest_rev_each(self, f: &mut dyn FnMut(&mut Self::T)) -> (bool, Vec<Self::T>);
    fn rest_min(self) -> Option<Self::T>;
    fn rest_max(self) -> Option<Self::T>;
}
pub struct Fwd<I>(pub I);
impl<I: Iterator> ProgIt for Fwd<I>
where
    I::Item: Ord,
{
    type T = I::Item;
    fn nx(&mut self) -> Option<I::Item> {
        self.0.next()
    }
    fn nb(&mut self) -> Option<Option<I::Item>> {
        None
    }
    fn nth_f(&mut self, k: usize) -> Option<I::Item> {
        self.0.nth(k)
    }
    fn nth_b(&mut self, _k: usize) -> Option<Option<I::Item>> {
        None
    }
    fn ln(&self) -> Option<usize> {
        None
    }
    fn sh(&self) -> (usize, Option<usize>) {
        self.0.size_hint()
    }
    fn rest_each(self, f: &mut dyn FnMut(&mut I::Item)) -> Vec<I::Item> {
        let mut v = Vec::new();
        self.0.for_each(|mut x| {
            f(&mut x);
            v.push(x)
        });
        v
    }
    fn rest_collect(self) -> Vec<I::Item> {
        self.0.collect()
    }
    fn rest_rev_each(self, f: &mut dyn FnMut(&mut I::Item)) -> (bool, Vec<I::Item>) {
        (false, self.rest_each(f))
    }
    fn rest_count(self) -> usize {
        self.0.count()
    }
    fn rest_last(self) -> Option<I::Item> {
        self.0.last()
    }
    fn rest_min(self) -> Option<I::Item> {
        self.0.min()
    }
    fn rest_max(self) -> Option<I::Item> {
        self.0.max()
    }
}
pub struct Dbl<I>(pub I);
impl<I: DoubleEndedIterator + ExactSizeIterator> ProgIt for Dbl<I>
where
    I::Item: Ord,
{
    type T = I::Item;
    fn nx(&mut self) -> Option<I::Item> {
        self.0.next()
    }
    fn nb(&mut self) -> Option<Option<I::Item>> {
        Some(self.0.next_back())
    }
    fn nth_f(&mut self, k: usize) -> Option<I::Item> {
        self.0.nth(k)
    }
    fn nth_b(&mut self, k: usize) -> Option<Option<I::Item>> {
        Some(self.0.nth_back(k))
    }
    fn ln(&self) -> Option<usize> {
        Some(self.0.len())
    }
    fn sh(&self) -> (usize, Option<usize>) {
        self.0.size_hint()
    }
    fn rest_each(self, f: &mut dyn FnMut(&mut I::Item)) -> Vec<I::Item> {
        let mut v = Vec::new();
        self.0.for_each(|mut x| {
            f(&mut x);
            v.push(x)
        });
        v
    }
    fn rest_collect(self) -> Vec<I::Item> {
        self.0.collect()
    }
    fn rest_rev_each(self, f: &mut dyn FnMut(&mut I::Item)) -> (bool, Vec<I::Item>) {
        let mut v = Vec::new();
        self.0.rev().for_each(|mut x| {
            f(&mut x);
            v.push(x)
        });
        (true, v)
    }
    fn rest_count(self) -> usize {
        self.0.count()
    }
    fn rest_last(self) -> Option<I::Item> {
        self.0.last()
    }
    fn rest_min(self) -> Option<I::Item> {
        self.0.min()
    }
    fn rest_max(self) -> Option<I::Item> {
        self.0.max()
    }
}

pub struct ProgOut<T> {
    /// (from_back, element) in the order yielded
    pub yielded: Vec<(bool, T)>,
    /// for each yield: how many elements the iterator consumed silently just before it, at the
    /// same end (nth / nth_back / last)
    pub skipped: Vec<usize>,
    /// everything the iterator has consumed (yielded or skipped)
    pub consumed: usize,
    pub problems: Vec<(&'static str, String)>,
}

/// Run a program of next / next_back / nth / nth_back / len / size_hint calls (optionally ended
/// by for_each / count / last) on an iterator that should yield `total` elements in all.
/// Size reports are checked before every call, None-forever after exhaustion, and — when the
/// iterator's own forward order `reference` is known (ids obtained by a plain next() pass over an
/// identical iterator) — every yield must be the element that order puts at that position, from
/// either end. Returns the iterator unless a terminal operation consumed it.
pub fn run_prog<P: ProgIt>(mut it: P, prog: &[ItOp], total: usize, reference: Option<&[u32]>, id_of: &dyn Fn(&P::T) -> u32, on_yield: &mut dyn FnMut(&mut P::T)) -> (ProgOut<P::T>, Option<P>) {
    let mut out = ProgOut { yielded: Vec::new(), skipped: Vec::new(), consumed: 0, problems: Vec::new() };
    let mut exhausted = false;
    let (mut front, mut back) = (0usize, total);
    let reference = reference.filter(|r| r.len() == total);
    macro_rules! positional {
        ($i:expr, $x:expr, $pos:expr) => {
            if let Some(r) = reference {
                if let Some(want) = r.get($pos) {
                    let got = id_of($x);
                    if got != *want {
                        out.problems.push(("wrong_position", format!("op {}: yielded item {} where the iterator's own order (a plain next() pass) has item {} at position {}", $i, got, want, $pos)));
                    }
                }
            }
        };
    }
    for (i, op) in prog.iter().enumerate() {
        let rem = back.saturating_sub(front);
        // size reports are checked before every call for iterators that declare an exact size
        if let Some(l) = it.ln() {
            if l != rem {
                out.problems.push(("len", format!("op {}: len()={} but {} elements remain", i, l, rem)));
            }
            let sh = it.sh();
            if sh != (rem, Some(rem)) {
                out.problems.push(("size_hint", format!("op {}: size_hint()={:?} but {} elements remain", i, sh, rem)));
            }
        } else {
            let (lo, hi) = it.sh();
            if lo > rem || hi.map_or(false, |h| h < rem) {
                out.problems.push(("size_hint_bounds", format!("op {}: size_hint()=({},{:?}) excludes the {} elements that remain", i, lo, hi, rem)));
            }
        }
        match *op {
            ItOp::Len | ItOp::SizeHint => {}
            ItOp::Next | ItOp::NextBack | ItOp::Nth(_) | ItOp::NthBack(_) => {
                let k = match *op {
                    ItOp::Nth(k) | ItOp::NthBack(k) => k,
                    _ => 0,
                };
                let want_back = matches!(*op, ItOp::NextBack | ItOp::NthBack(_));
                let plain = matches!(*op, ItOp::Next | ItOp::NextBack);
                let (from_back, r) = if want_back {
                    match if plain { it.nb() } else { it.nth_b(k) } {
                        Some(r) => (true, r),
                        None => (false, if plain { it.nx() } else { it.nth_f(k) }),
                    }
                } else {
                    (false, if plain { it.nx() } else { it.nth_f(k) })
                };
                match r {
                    Some(mut x) => {
                        // the client's use of the element, while the iterator is alive
                        on_yield(&mut x);
                        if exhausted {
                            out.problems.push(("yield_after_none", format!("op {}: yielded an element after having returned None", i)));
                        }
                        if k >= rem {
                            out.problems.push(("too_many", format!("op {} ({:?}): yielded an element although only {} remained", i, op, rem)));
                        } else if from_back {
                            positional!(i, &x, back - 1 - k);
                        } else {
                            positional!(i, &x, front + k);
                        }
                        let step = (k + 1).min(rem.max(1));
                        if from_back {
                            back = back.saturating_sub(step).max(front);
                        } else {
                            front = (front + step).min(back.max(front));
                        }
                        out.consumed += step;
                        out.yielded.push((from_back, x));
                        out.skipped.push(k.min(rem.saturating_sub(1)));
                    }
                    None => {
                        if k < rem {
                            out.problems.push(("early_none", format!("op {} ({:?}): returned None with {} elements still to come", i, op, rem)));
                        }
                        // a None from nth(k >= rem) has consumed everything that was left
                        out.consumed += rem;
                        front = back;
                        exhausted = true;
                    }
                }
            }
            ItOp::RestForEach => {
                let v = it.rest_each(on_yield);
                if v.len() != rem {
                    out.problems.push((if v.len() > rem { "too_many" } else { "early_none" }, format!("op {}: for_each visited {} elements, {} remained", i, v.len(), rem)));
                }
                for x in v {
                    positional!(i, &x, front);
                    front += 1;
                    out.consumed += 1;
                    out.yielded.push((false, x));
                    out.skipped.push(0);
                }
                return (out, None);
            }
            ItOp::RestCollect => {
                // no client use of the elements: the iterator is gone when collect returns
                let v = it.rest_collect();
                if v.len() != rem {
                    out.problems.push((if v.len() > rem { "too_many" } else { "early_none" }, format!("op {}: collect() gave {} elements, {} remained", i, v.len(), rem)));
                }
                for x in v {
                    positional!(i, &x, front);
                    front += 1;
                    out.consumed += 1;
                    out.yielded.push((false, x));
                    out.skipped.push(0);
                }
                return (out, None);
            }
            ItOp::RestRevEach => {
                let (from_back, v) = it.rest_rev_each(on_yield);
                if v.len() != rem {
                    out.problems.push((if v.len() > rem { "too_many" } else { "early_none" }, format!("op {}: rev().for_each visited {} elements, {} remained", i, v.len(), rem)));
                }
                for x in v {
                    if from_back {
                        if back > front {
                            positional!(i, &x, back - 1);
                            back -= 1;
                        }
                    } else {
                        positional!(i, &x, front);
                        front += 1;
                    }
                    out.consumed += 1;
                    out.yielded.push((from_back, x));
                    out.skipped.push(0);
                }
                return (out, None);
            }
            ItOp::RestCount => {
                let c = it.rest_count();
                if c != rem {
                    out.problems.push((if c > rem { "too_many" } else { "early_none" }, format!("op {}: count() = {} but {} elements remained", i, c, rem)));
                }
                out.consumed += rem;
                return (out, None);
            }
            ItOp::RestMin | ItOp::RestMax => {
                let is_min = *op == ItOp::RestMin;
                let r = if is_min { it.rest_min() } else { it.rest_max() };
                // pairs compare by item first; items are distinct, so the answer is the remaining
                // element with the smallest / greatest item id
                let want: Option<u32> = reference.and_then(|rf| {
                    let rest = &rf[front.min(rf.len())..back.min(rf.len()).max(front.min(rf.len()))];
                    if is_min {
                        rest.iter().min().copied()
                    } else {
                        rest.iter().max().copied()
                    }
                });
                match (&r, rem) {
                    (None, 0) => {}
                    (None, _) => out.problems.push(("early_none", format!("op {}: {:?} returned None with {} elements remaining", i, op, rem))),
                    (Some(_), 0) => out.problems.push(("yield_after_none", format!("op {}: {:?} yielded an element of an exhausted iterator", i, op))),
                    (Some(x), _) => {
                        if reference.is_some() && want != Some(id_of(x)) {
                            out.problems.push(("wrong_min_max", format!("op {}: {:?} returned item {} but the extreme of the remaining pairs (compared item first, as Iterator::{} does) is item {:?}", i, op, id_of(x), if is_min { "min" } else { "max" }, want)));
                        }
                    }
                }
                // (the element returned is not recorded as a positional yield: it can be any of
                // the remaining ones)
                drop(r);
                out.consumed += rem;
                return (out, None);
            }
            ItOp::RestLast => {
                let l = it.rest_last();
                match l {
                    Some(x) => {
                        if rem == 0 {
                            out.problems.push(("yield_after_none", format!("op {}: last() yielded an element of an exhausted iterator", i)));
                        } else {
                            positional!(i, &x, back - 1);
                        }
                        out.yielded.push((false, x));
                        out.skipped.push(rem.saturating_sub(1));
                    }
                    None => {
                        if rem > 0 {
                            out.problems.push(("early_none", format!("op {}: last() returned None with {} elements remaining", i, rem)));
                        }
                    }
                }
                out.consumed += rem;
                return (out, None);
            }
        }
    }
    (out, Some(it))
}

// ------------------------------------------------------------------------------------------
// the executor

pub fn exec(q: &mut AnyQ, m: &mut Model, st: &Step, cx: &mut Ctx) {
    let kind = q.kind();
    let ot = ord_tag(kind);
    let tags = step_tags(st);
    cx.exact = 0;
    cx.loose = 0;
    cx.late_write = false;
    match st {
        Step::Push { k, p, pl } => {
            let exp = m.prio(*k);
            probe_push(q, m, *k, cx);
            // priorities carry a stamp outside Ord/Eq: "returns the previous priority" and "holds
            // the last one assigned" are then observable even when old and new compare equal
            let stored0 = q.prio_stamp(&KeyId(*k));
            let rr = q.push(Key::new(*k, *pl), Prio::stamped(*p, *pl));
            let rstamp = rr.as_ref().map(|x| x.s);
            let r = rr.map(|x| x.v);
            cx.ret_opt_i32(r);
            expect!(cx, C03, "push_ret", r == exp, "push({},{}) returned {:?}, model says {:?}", k, p, r, exp);
            expect!(cx, C03, "push_ret_stamp", rstamp == stored0.map(|x| x.1), "push({},{}) must return the priority that was stored (stamp {:?}); it returned one with stamp {:?}", k, p, stored0.map(|x| x.1), rstamp);
            expect!(cx, C03, "push_stores_given", q.prio_stamp(&KeyId(*k)) == Some((*p, *pl)), "after push({},{}) the stored priority is {:?} (value, stamp), not the one given (stamp {})", k, p, q.prio_stamp(&KeyId(*k)), pl);
            m.push(*k, *p, *pl);
        }
        Step::PushInc { k, p, pl } | Step::PushDec { k, p, pl } => {
            let inc = matches!(st, Step::PushInc { .. });
            let cur = m.prio(*k);
            let (exp, changes) = match cur {
                None => (None, true),
                Some(c0) if (inc && *p > c0) || (!inc && *p < c0) => (Some(c0), true),
                Some(_) => (Some(*p), false),
            };
            cx.probe(match (cur.is_none(), changes) {
                (true, _) => "push_incdec_absent",
                (false, true) => "push_incdec_moves",
                (false, false) => "push_incdec_noop",
            });
            let key = Key::new(*k, *pl);
            // the offered priority carries a stamp outside Ord/Eq, so that "returns the offered
            // priority and leaves the stored one untouched" is observable for equal offers
            let pr = Prio::stamped(*p, *pl);
            let stored0 = q.prio_stamp(&KeyId(*k));
            let rr = if inc { q.push_increase(key, pr) } else { q.push_decrease(key, pr) };
            let rstamp = rr.as_ref().map(|x| x.s);
            let r = rr.map(|x| x.v);
            let stored1 = q.prio_stamp(&KeyId(*k));
            match (cur, changes) {
                (Some(_), false) => {
                    expect!(cx, C11 | C03, "push_incdec_untouched", stored1 == stored0, "push_{}({},{}) must leave the stored priority untouched (offer not strictly in its direction) but it changed from {:?} to {:?} (value, stamp)", if inc { "increase" } else { "decrease" }, k, p, stored0, stored1);
                    expect!(cx, C11 | C03, "push_incdec_returns_offered", rstamp == Some(*pl), "push_{}({},{}) must return the offered priority itself; it returned one with stamp {:?}, the offered stamp is {}", if inc { "increase" } else { "decrease" }, k, p, rstamp, pl);
                }
                (Some(_), true) => {
                    expect!(cx, C11 | C03, "push_incdec_returns_old", rstamp == stored0.map(|x| x.1), "push_{}({},{}) must return the previously stored priority (stamp {:?}), got stamp {:?}", if inc { "increase" } else { "decrease" }, k, p, stored0.map(|x| x.1), rstamp);
                    expect!(cx, C11 | C03, "push_incdec_stores_offered", stored1 == Some((*p, *pl)), "push_{}({},{}) must store the offered priority, stored {:?}", if inc { "increase" } else { "decrease" }, k, p, stored1);
                }
                _ => {}
            }
            cx.ret_opt_i32(r);
            expect!(cx, C03 | C11, "push_incdec_ret", r == exp, "push_{}({},{}) returned {:?}, expected {:?} (stored {:?})", if inc { "increase" } else { "decrease" }, k, p, r, exp, cur);
            if changes {
                m.push(*k, *p, *pl);
            }
        }
        Step::Change { k, p, b, pl } => {
            let exp = m.prio(*k);
            probe_change(q, m, *k, *p, cx);
            let stored0 = q.prio_stamp(&KeyId(*k));
            let rr = if *b { q.change_priority_borrowed(&KeyId(*k), Prio::stamped(*p, *pl)) } else { q.change_priority_owned(&Key::new(*k, *pl), Prio::stamped(*p, *pl)) };
            let rstamp = rr.as_ref().map(|x| x.s);
            let r = rr.map(|x| x.v);
            cx.ret_opt_i32(r);
            expect!(cx, C03, "change_ret", r == exp, "change_priority({},{}) returned {:?}, model says {:?}", k, p, r, exp);
            if exp.is_some() {
                expect!(cx, C03, "change_ret_stamp", rstamp == stored0.map(|x| x.1), "change_priority({},{}) must return the old priority (stamp {:?}); it returned one with stamp {:?}", k, p, stored0.map(|x| x.1), rstamp);
                expect!(cx, C03, "change_stores_given", q.prio_stamp(&KeyId(*k)) == Some((*p, *pl)), "after change_priority({},{}) the stored priority is {:?} (value, stamp), not the one given (stamp {})", k, p, q.prio_stamp(&KeyId(*k)), pl);
            }
            if exp.is_some() {
                m.set_prio(*k, *p);
            }
        }
        Step::ChangeBy { k, p, b, pl } => {
            let exp = m.prio(*k).is_some();
            let mut seen = None;
            let r = if *b {
                q.change_priority_by_borrowed(&KeyId(*k), |x| {
                    seen = Some(x.v);
                    x.v = *p
                })
            } else {
                q.change_priority_by_owned(&Key::new(*k, *pl), |x| {
                    seen = Some(x.v);
                    x.v = *p
                })
            };
            cx.ret(r as u64);
            expect!(cx, C03, "change_by_ret", r == exp, "change_priority_by({}) returned {}, model says {}", k, r, exp);
            expect!(cx, C03, "change_by_seen", seen == m.prio(*k), "change_priority_by({}) showed the setter {:?}, stored {:?}", k, seen, m.prio(*k));
            if exp {
                m.set_prio(*k, *p);
            }
        }
        Step::Remove { k, b, pl } => {
            let exp = m.get(*k);
            probe_remove(q, *k, cx);
            let r = if *b { q.remove_borrowed(&KeyId(*k)) } else { q.remove_owned(&Key::new(*k, *pl)) };
            let r3 = r.as_ref().map(|(key, pr)| (key.id(), pr.v, key.payload));
            cx.ret(match r3 {
                None => u64::MAX,
                Some(x) => crate::rng::hash3(x.0 as u64, x.1 as u32 as u64, x.2 as u64),
            });
            expect!(cx, C03, "remove_ret", r3.map(|x| (x.0, x.1)) == exp.map(|e| (*k, e.0)), "remove({}) returned {:?}, model says {:?}", k, r3, exp);
            if let (Some(x), Some(e)) = (r3, exp) {
                expect!(cx, C12, "remove_payload", x.2 == e.1, "remove({}) returned payload {:#x}, stored item had {:#x}", k, x.2, e.1);
            }
            m.remove(*k);
        }
        Step::Pop { e } => {
            let e = if kind == Kind::Pq { End::Max } else { *e };
            let before = q.contents();
            let pk = q.peek(e);
            let r = q.pop(e);
            let r3 = r.as_ref().map(|(key, pr)| (key.id(), pr.v, key.payload));
            cx.ret_elem(r3);
            check_extreme(cx, ot, "pop", e, &before, r3);
            if !cx.order_suspended {
                expect!(cx, ot, "pop_is_peeked", r3.map(|x| x.0) == pk.map(|x| x.0), "pop returned item {:?} but the preceding peek reported {:?}", r3, pk);
            }
            if let Some(x) = r3 {
                let me = m.get(x.0);
                expect!(cx, C03, "pop_stored", me.map(|e| e.0) == Some(x.1), "pop returned ({},{}) but the model stores {:?} for that item", x.0, x.1, me);
                if let Some(me) = me {
                    expect!(cx, C12, "pop_payload", me.1 == x.2, "pop returned item {} with payload {:#x}, stored item had {:#x}", x.0, x.2, me.1);
                }
                m.remove(x.0);
            } else {
                expect!(cx, C03, "pop_none", m.is_empty(), "pop returned None on a queue the model says holds {} elements", m.len());
            }
        }
        Step::PopIf { e, acc, rw, pl } => {
            let e = if kind == Kind::Pq { End::Max } else { *e };
            let before = q.contents();
            let pk = q.peek(e);
            let mut shown: Option<P3> = None;
            let r = q.pop_if(e, |key, pr| {
                shown = Some((key.id(), pr.v, key.payload));
                if let Some(v) = rw {
                    pr.v = *v;
                }
                if let Some(v) = pl {
                    key.payload = *v;
                }
                *acc
            });
            let r3 = r.as_ref().map(|(key, pr)| (key.id(), pr.v, key.payload));
            cx.ret_elem(r3);
            cx.ret_elem(shown);
            cx.probe(if *acc { "pop_if_accept" } else { "pop_if_reject" });
            check_extreme(cx, ot | C08, "pop_if_shown", e, &before, shown);
            if !cx.order_suspended {
                expect!(cx, ot | C08, "pop_if_is_peeked", shown.map(|x| x.0) == pk.map(|x| x.0), "pop_if showed its predicate item {:?} but the preceding peek reported {:?}", shown, pk);
            }
            expect!(cx, C03 | C08, "pop_if_called", shown.is_some() == !before.is_empty(), "pop_if predicate called={} on a queue of {} elements", shown.is_some(), before.len());
            if let Some(s) = shown {
                let me = m.get(s.0);
                expect!(cx, C03 | C08, "pop_if_stored", me.map(|x| x.0) == Some(s.1), "pop_if showed ({},{}) but the model stores {:?}", s.0, s.1, me);
                let newp = rw.unwrap_or(s.1);
                let newpl = pl.unwrap_or(s.2);
                if *acc {
                    expect!(cx, C03 | C08, "pop_if_ret", r3 == Some((s.0, newp, newpl)), "pop_if accepted {:?} (rewritten to prio {}) but returned {:?}", s, newp, r3);
                    m.remove(s.0);
                } else {
                    expect!(cx, C03 | C08, "pop_if_ret", r3.is_none(), "pop_if rejected but returned {:?}", r3);
                    m.set_prio(s.0, newp);
                    m.set_payload(s.0, newpl);
                }
            } else {
                expect!(cx, C03 | C08, "pop_if_ret", r3.is_none(), "pop_if on an empty queue returned {:?}", r3);
            }
        }
        Step::Peek { e } => {
            let e = if kind == Kind::Pq { End::Max } else { *e };
            let before = q.contents();
            let ticks0 = ticks();
            let r = q.peek(e);
            let dt = ticks() - ticks0;
            cx.ret_elem(r);
            check_extreme(cx, ot, "peek", e, &before, r);
            let allowed = if kind == Kind::Dpq && e == End::Max { 1 } else { 0 };
            expect!(cx, c(5), "peek_ticks", dt <= allowed, "peek({:?}) performed {} comparisons (allowed {})", e, dt, allowed);
        }
        Step::PeekMut { e, pl } => {
            let e = if kind == Kind::Pq { End::Max } else { *e };
            let before = q.contents();
            let pk = q.peek(e);
            let r3 = q.peek_mut(e).map(|(key, pr)| {
                let r = (key.id(), pr.v, key.payload);
                if let Some(v) = pl {
                    key.payload = *v;
                }
                r
            });
            cx.ret_elem(r3);
            check_extreme(cx, ot, "peek_mut", e, &before, r3);
            if !cx.order_suspended {
                expect!(cx, ot, "peek_mut_is_peeked", r3.map(|x| x.0) == pk.map(|x| x.0), "peek_mut addressed {:?} but the preceding peek reported {:?}", r3, pk);
            }
            if let (Some(x), Some(v)) = (r3, pl) {
                if m.get(x.0).is_some() {
                    m.set_payload(x.0, *v);
                }
            }
        }
        Step::Get { k, b } => {
            let exp = m.get(*k).map(|e| (*k, e.0, e.1));
            let (r, rp) = if *b {
                (q.get_borrowed(&KeyId(*k)), q.get_priority_borrowed(&KeyId(*k)))
            } else {
                let key = Key::new(*k, 0);
                (q.get_owned(&key), q.get_priority_owned(&key))
            };
            cx.ret_elem(r);
            expect!(cx, C03, "get", r.map(|x| (x.0, x.1)) == exp.map(|x| (x.0, x.1)), "get({}) = {:?}, model says {:?}", k, r, exp);
            expect!(cx, C03, "get_priority", rp == exp.map(|x| x.1), "get_priority({}) = {:?}, model says {:?}", k, rp, exp);
            if let (Some(r), Some(x)) = (r, exp) {
                expect!(cx, C12, "get_payload", r.2 == x.2, "get({}) payload {:#x}, model says {:#x}", k, r.2, x.2);
            }
        }
        Step::GetMut { k, b, pl } => {
            let exp = m.get(*k).map(|e| (*k, e.0, e.1));
            let f = |(key, pr): (&mut Key, &Prio)| {
                let r = (key.id(), pr.v, key.payload);
                if let Some(v) = pl {
                    key.payload = *v;
                }
                r
            };
            let r = if *b { q.get_mut_borrowed(&KeyId(*k)).map(f) } else { q.get_mut_owned(&Key::new(*k, 0)).map(f) };
            cx.ret_elem(r);
            expect!(cx, C03, "get_mut", r.map(|x| (x.0, x.1)) == exp.map(|x| (x.0, x.1)), "get_mut({}) = {:?}, model says {:?}", k, r, exp);
            if let (Some(r), Some(x)) = (r, exp) {
                expect!(cx, C12, "get_mut_payload", r.2 == x.2, "get_mut({}) payload {:#x}, model says {:#x}", k, r.2, x.2);
                if let Some(v) = pl {
                    m.set_payload(*k, *v);
                }
            }
        }
        Step::Retain { rule, mutable } => {
            let before = q.contents();
            let mut seen: Vec<P3> = Vec::with_capacity(before.len());
            if *mutable {
                q.retain_mut(|key, pr| {
                    seen.push((key.id(), pr.v, key.payload));
                    if let Some(v) = rule.rewrite(key.id(), pr.v) {
                        pr.v = v;
                    }
                    if let Some(v) = rule.payload(key.id()) {
                        key.payload = v;
                    }
                    rule.keeps(key.id())
                });
            } else {
                q.retain(|key, pr| {
                    seen.push((key.id(), pr.v, key.payload));
                    rule.keeps(key.id())
                });
            }
            let mut a = seen.clone();
            a.sort();
            let mut b2 = before.clone();
            b2.sort();
            expect!(cx, C08, "retain_calls", a == b2, "retain called its predicate on {:?} but the queue held {:?}", a, b2);
            let mut removed = 0;
            for (id, p, _) in &before {
                if !rule.keeps(*id) {
                    m.remove(*id);
                    removed += 1;
                } else if *mutable {
                    if let Some(v) = rule.rewrite(*id, *p) {
                        m.set_prio(*id, v);
                    }
                    if let Some(v) = rule.payload(*id) {
                        m.set_payload(*id, v);
                    }
                }
            }
            cx.probe(if removed == 0 { "retain_keeps_all" } else if removed == before.len() { "retain_removes_all" } else { "retain_removes_some" });
            cx.ret(removed as u64);
            cx.order_suspended = false;
        }
        Step::IterMut { prog, via, end, rule, late } => ep_iter_mut(q, m, prog, *via, *end, rule, *late, cx),
        Step::Drain { prog, end } => {
            let before = q.contents();
            let total = before.len();
            cx.saw_drain_or_clear = true;
            // the iterator's own forward order, from a plain next() pass over an identical queue
            let reference: Vec<u32> = both!(q.clone(), qq => { let mut qq = qq; qq.drain().map(|(k, _)| k.id()).collect() });
            let out = both!(q, qq => {
                let (out, it) = run_prog(Dbl(qq.drain()), prog, total, Some(&reference), &|x: &(Key, Prio)| x.0.id(), &mut |_| {});
                let remaining = total - out.consumed.min(total);
                match (it, end) {
                    (None, _) => {}
                    (Some(it), GEnd::Drop) => drop(it),
                    (Some(it), GEnd::Forget) => {
                        cx.expected_leak += 2 * remaining as u64;
                        std::mem::forget(it)
                    }
                }
                out
            });
            for (cl, msg) in &out.problems {
                let t = match *cl {
                    "len" | "size_hint" | "size_hint_bounds" => C13,
                    _ => C13 | C16,
                };
                cx.fail(t, cl, format!("drain: {}", msg));
            }
            let ys: Vec<P3> = out.yielded.iter().map(|(_, (key, pr))| (key.id(), pr.v, key.payload)).collect();
            check_each_once(cx, C13 | C16, "drain", &before, &ys, false);
            cx.ret(ys.len() as u64);
            cx.probe(match (end, out.consumed >= total) {
                (GEnd::Drop, true) => "drain_full_drop",
                (GEnd::Drop, false) => "drain_partial_drop",
                (GEnd::Forget, true) => "drain_full_forget",
                (GEnd::Forget, false) => "drain_partial_forget",
            });
            m.clear();
            cx.order_suspended = false;
        }
        Step::Iter { which, prog } => ep_iter(q, m, *which, prog, cx),
        Step::Adapt { which, ad } => ep_adapt(q, *which, *ad, cx),
        Step::Clear => {
            cx.saw_drain_or_clear = true;
            q.clear();
            m.clear();
            cx.order_suspended = false;
        }
        Step::Shrink => {
            q.shrink_to_fit();
            expect!(cx, C17, "shrink_capacity", q.capacity() >= q.len(), "after shrink_to_fit capacity()={} < len()={}", q.capacity(), q.len());
        }
        Step::Reserve { n, exact } if *n >= usize::MAX / 2 => {
            // an amount no allocation can satisfy: the documented capacity-overflow panic is the
            // one legitimate outcome; returning normally claims room that cannot exist
            let (n, exact) = (*n, *exact);
            let r = guarded(|| if exact { q.reserve_exact(n) } else { q.reserve(n) });
            match r {
                Err(_) => cx.probe("reserve_capacity_overflow_panic"),
                Ok(()) => cx.fail(C17, "reserve_returned_without_room", format!("reserve{}({}) returned normally; capacity()={} len()={}", if exact { "_exact" } else { "" }, n, q.capacity(), q.len())),
            }
        }
        Step::Reserve { n, exact } => {
            if *exact {
                q.reserve_exact(*n)
            } else {
                q.reserve(*n)
            }
            expect!(cx, C17, "reserve_capacity", q.capacity() >= q.len() + n, "after reserve({}) capacity()={} < len()+n={}", n, q.capacity(), q.len() + n);
        }
        Step::TryReserve { n, exact, fault } => {
            let cap_before = q.capacity();
            crate::alloc::begin(fault.map(|f| f.0), fault.map_or(false, |f| f.1));
            let r = if *exact { q.try_reserve_exact(*n) } else { q.try_reserve(*n) };
            let (seen, failed) = crate::alloc::end();
            cx.ret(r.is_ok() as u64);
            if failed > 0 {
                cx.probe("alloc_fault_fired");
            }
            let _ = seen;
            match &r {
                Ok(()) => {
                    cx.probe("try_reserve_ok");
                    // with a persistent fault every allocation from the k-th on fails: whatever
                    // asked for one of them cannot have got its memory, so Ok hides a failure
                    // (a one-shot fault may legitimately be recovered from by a retry)
                    expect!(cx, C17, "try_reserve_swallowed_failure", !(failed > 0 && fault.map_or(false, |f| f.1)), "try_reserve({}) returned Ok although {} of its allocations failed (persistent allocation failure)", n, failed);
                    let need = q.len().checked_add(*n);
                    expect!(cx, C17, "try_reserve_ok_capacity", need.map_or(false, |x| q.capacity() >= x), "try_reserve({}) returned Ok but capacity()={} < len()+n={:?}", n, q.capacity(), need);
                    expect!(cx, C17, "try_reserve_ceiling", n.saturating_mul(8) <= crate::alloc::CEILING, "try_reserve({}) returned Ok above the simulated memory ceiling", n);
                }
                Err(_) => {
                    cx.probe("try_reserve_err");
                    expect!(cx, C17, "try_reserve_err_shrank", q.capacity() >= cap_before, "a failed try_reserve({}) must leave the queue unchanged, but capacity() went from {} to {}", n, cap_before, q.capacity());
                    if failed == 0 && n.saturating_mul(8) <= crate::alloc::CEILING / 64 {
                        cx.probe("try_reserve_err_without_injected_fault");
                    }
                }
            }
        }
        Step::Extend { pairs, hint } => {
            let len0 = q.len();
            let before_ids: Vec<u32> = m.keys();
            let src = HintedSource::new(mkpairs(pairs), *hint);
            let rep = hint.report(pairs.len());
            q.extend(src);
            // coverage only: the crate decides on the lower bound of the report
            let n2 = rep.0;
            let rebuild = len0 > 1 && n2 != 0 && {
                let lg = (usize::BITS - len0.leading_zeros() - 1) as usize;
                2u128 * (len0 as u128 + n2 as u128) < n2 as u128 * lg as u128
            };
            cx.probe(if rebuild { "extend_rebuild_strategy" } else { "extend_push_strategy" });
            cx.probe(hint_probe(hint));
            let mut adopt = Vec::new();
            for (k, p, pl) in pairs {
                if m.get(*k).is_some() {
                    m.set_prio(*k, *p);
                    adopt.push(*k);
                } else {
                    m.push(*k, *p, *pl);
                }
            }
            // an item that was stored before this call keeps its value across a priority update
            // (C12: changes made through get_mut & co. "persist across all later … priority
            // updates"); which value survives among repeats *within* the batch is not part of
            // any statement checked here (its hint-independence is C07's differential check)
            for k in &adopt {
                if let (Some(h), Some(old)) = (q.get_borrowed(&KeyId(*k)), m.get(*k).map(|e| e.1)) {
                    if before_ids.binary_search(k).is_ok() {
                        expect!(cx, C12, "payload_replaced_by_extend", h.2 == old, "extend updated the priority of item {} which was already stored, and replaced its item value (payload {:#x}) by the one given ({:#x})", k, old, h.2);
                    }
                }
            }
            adopt_payloads(q, m, &adopt, pairs, cx, C07);
            cx.ret(pairs.len() as u64);
        }
        Step::Append { pairs, via_vec } => {
            let mut other = if *via_vec {
                AnyQ::from_vec(kind, mkpairs(pairs))
            } else {
                let mut o = construct(kind, Ctor::WithHasher);
                for (key, pr) in mkpairs(pairs) {
                    o.push(key, pr);
                }
                o
            };
            let mut om = Model::default();
            for (k, p, pl) in pairs {
                if *via_vec {
                    om.push_first(*k, *p, *pl);
                } else {
                    om.push(*k, *p, *pl);
                }
            }
            let other_longer = other.len() > q.len();
            cx.probe(if other_longer { "append_other_longer" } else { "append_other_not_longer" });
            q.append(&mut other);
            // model: union; clashes keep the receiver's priority unless the other was longer
            let mut either: Vec<u32> = Vec::new();
            for (k, (p, pl)) in om.m.iter() {
                if m.get(*k).is_some() {
                    if other_longer {
                        either.push(*k);
                    }
                } else {
                    m.push(*k, *p, *pl);
                }
            }
            for k in &either {
                // either priority may stay: accept what is stored if it is one of the two
                let have = q.get_borrowed(&KeyId(*k));
                let a = m.get(*k).unwrap();
                let b2 = om.get(*k).unwrap();
                match have {
                    Some(h) if (h.1 == a.0 && h.2 == a.1) || (h.1 == b2.0 && h.2 == b2.1) => {
                        m.set_prio(*k, h.1);
                        m.set_payload(*k, h.2);
                    }
                    _ => cx.fail(C07 | C03, "append_clash", format!("append: item {} stored as {:?}, expected {:?} or {:?}", k, have, a, b2)),
                }
            }
            expect!(cx, C07, "append_other_empty", other.len() == 0 && other.is_empty() && other.contents().is_empty() && other.peek(End::Max).is_none() && other.peek(End::Min).is_none(), "append left the other queue non-empty: len {} contents {:?}", other.len(), other.contents());
            // the other queue must remain usable
            let r = other.push(Key::new(0, 7), Prio::new(1));
            let r2 = other.push(Key::new(1, 8), Prio::new(2));
            let top = other.pop(End::Max).map(|(key, pr)| (key.id(), pr.v));
            expect!(cx, C07, "append_other_usable", r.is_none() && r2.is_none() && top == Some((1, 2)) && other.len() == 1, "the emptied queue misbehaves after append: push->{:?},{:?} pop->{:?} len {}", r.map(|x| x.v), r2.map(|x| x.v), top, other.len());
            // … and after a refill of a few more elements it must give them all back, in order
            let refill: [(u32, i32); 5] = [(11, 10), (12, 30), (13, 20), (14, 5), (15, 30)];
            for (k, p) in refill {
                other.push(Key::new(k, 9), Prio::new(p));
            }
            let mut got = Vec::new();
            while let Some((_, pr)) = other.pop(End::Max) {
                got.push(pr.v);
                if got.len() > 8 {
                    break;
                }
            }
            expect!(cx, C07, "append_other_usable", got == vec![30, 30, 20, 10, 5, 1], "the emptied queue misbehaves after append: refilled with priorities 1, 10, 30, 20, 5, 30 it pops {:?}", got);
            if cx.snapshot {
                check_tables(&other, cx, "other queue after append");
            }
            cx.ret(pairs.len() as u64);
            cx.order_suspended = false;
        }
        Step::FromVec { extra } => {
            let hk = crate::hashers::current();
            let _ = hk;
            let old = std::mem::replace(q, construct(kind, Ctor::WithHasher));
            let mut v = old.into_pairs();
            v.extend(mkpairs(extra));
            let given: Vec<P3> = v.iter().map(|(key, pr)| (key.id(), pr.v, key.payload)).collect();
            *q = AnyQ::from_vec(kind, v);
            // first priority wins
            let mut nm = Model::default();
            for (k, p, pl) in &given {
                nm.push_first(*k, *p, *pl);
            }
            *m = nm;
            cx.ret(given.len() as u64);
            cx.order_suspended = false;
        }
        Step::FromIter { extra, hint } => {
            let old = std::mem::replace(q, construct(kind, Ctor::WithHasher));
            let mut v = old.into_pairs();
            v.extend(mkpairs(extra));
            let given: Vec<P3> = v.iter().map(|(key, pr)| (key.id(), pr.v, key.payload)).collect();
            *q = AnyQ::from_iter(kind, HintedSource::new(v, *hint));
            cx.probe(hint_probe(hint));
            let mut nm = Model::default();
            let mut clash = Vec::new();
            for (k, p, pl) in &given {
                if nm.get(*k).is_some() {
                    nm.set_prio(*k, *p);
                    clash.push(*k);
                } else {
                    nm.push(*k, *p, *pl);
                }
            }
            *m = nm;
            adopt_payloads(q, m, &clash, &given, cx, C07);
            cx.ret(given.len() as u64);
            cx.order_suspended = false;
        }
        Step::Convert => {
            let old = std::mem::replace(q, construct(kind, Ctor::WithHasher));
            *q = old.convert();
            cx.order_suspended = false;
        }
        Step::CloneSwap => {
            let cl = q.clone();
            expect!(cx, C14, "clone_eq", cl.eq_q(q) && q.eq_q(&cl), "a clone does not compare equal to its source");
            *q = cl;
        }
        Step::CloneFrom { dst } => {
            // the queue under test is the DESTINATION: it receives clone_from(&source), the source
            // being a queue built from the step's pairs
            let mut src = construct(kind, Ctor::WithHasher);
            let mut sm = Model::default();
            for (key, pr) in mkpairs(dst) {
                sm.push(key.id(), pr.v, key.payload);
                src.push(key, pr);
            }
            q.clone_from_q(&src);
            expect!(cx, C14, "clone_from_eq", src.eq_q(q) && q.eq_q(&src), "after dst.clone_from(&src), dst != src");
            expect!(cx, C14, "clone_from_len", src.len() == q.len() && src.is_empty() == q.is_empty(), "after dst.clone_from(&src) dst.len()={} but src.len()={}", q.len(), src.len());
            *m = sm;
            cx.order_suspended = false;
        }
        Step::Serde { switch } => {
            let s = q.to_json();
            let target = if *switch {
                match kind {
                    Kind::Pq => Kind::Dpq,
                    Kind::Dpq => Kind::Pq,
                }
            } else {
                kind
            };
            match AnyQ::from_json(target, &s) {
                Ok(nq) => {
                    if !*switch {
                        expect!(cx, C15, "serde_eq", nq.eq_q(q) && q.eq_q(&nq), "deserialize(serialize(q)) != q");
                    }
                    *q = nq;
                    cx.order_suspended = false;
                }
                Err(e) => cx.fail(C15, "serde_err", format!("deserializing the queue's own serialization failed: {} (json {})", e, s)),
            }
        }
        Step::EqSelf => {
            let cl = q.clone();
            let same = cl.eq_q(q);
            expect!(cx, C14, "eq_reflexive", same && q.eq_q(q), "q == q.clone() is false");
            // a neighbour differing in one priority / one item must compare unequal
            if let Some((k, (p, _))) = m.m.iter().next().map(|(k, v)| (*k, *v)) {
                let mut o = q.clone();
                o.change_priority_borrowed(&KeyId(k), Prio::new(p.wrapping_add(1)));
                expect!(cx, C14, "eq_diff_prio", !o.eq_q(q) && !q.eq_q(&o), "queues differing in the priority of item {} compare equal", k);
                let mut o2 = q.clone();
                o2.remove_borrowed(&KeyId(k));
                expect!(cx, C14, "eq_diff_item", !o2.eq_q(q) && !q.eq_q(&o2), "queues differing by item {} compare equal", k);
                o2.push(Key::new(cx.universe + 1, 0), Prio::new(p));
                expect!(cx, C14, "eq_diff_item2", !o2.eq_q(q) && !q.eq_q(&o2), "queues of equal length differing in one item compare equal");
            }
            cx.ret(same as u64);
        }
        Step::Sorted { which } => {
            let before = q.contents();
            let cl = q.clone();
            if cx.order_suspended {
                return;
            }
            let (ids, asc): (Vec<u32>, bool) = match (cl, which) {
                (AnyQ::Pq(x), SortedKind::VecA) => (x.into_sorted_vec().iter().map(|k| k.id()).collect(), false),
                (AnyQ::Pq(x), SortedKind::VecB) => (x.into_sorted_iter().map(|(k, _)| k.id()).collect(), false),
                (AnyQ::Dpq(x), SortedKind::VecA) => (x.into_ascending_sorted_vec().iter().map(|k| k.id()).collect(), true),
                (AnyQ::Dpq(x), SortedKind::VecB) => (x.into_descending_sorted_vec().iter().map(|k| k.id()).collect(), false),
            };
            let pm: BTreeMap<u32, i32> = before.iter().map(|x| (x.0, x.1)).collect();
            let mut a = ids.clone();
            a.sort();
            let mut b2: Vec<u32> = before.iter().map(|x| x.0).collect();
            b2.sort();
            expect!(cx, C06 | ot, "sorted_vec_set", a == b2, "sorted consumption yielded items {:?}, stored {:?}", ids, b2);
            let ps: Vec<i32> = ids.iter().filter_map(|i| pm.get(i).copied()).collect();
            let mono = ps.windows(2).all(|w| if asc { w[0] <= w[1] } else { w[0] >= w[1] });
            expect!(cx, C06 | ot, "sorted_vec_order", mono, "sorted consumption ({}) yielded priorities {:?}", if asc { "ascending" } else { "descending" }, ps);
            cx.ret(ids.len() as u64);
        }
        Step::SortedEp { prog } => {
            if cx.order_suspended {
                return;
            }
            let before = q.contents();
            match q.clone() {
                AnyQ::Pq(x) => {
                    // forward-only: a plain next() pass over an identical queue is the reference
                    let reference: Vec<u32> = x.clone().into_sorted_iter().map(|(k, _)| k.id()).collect();
                    let (out, _it) = run_prog(Fwd(x.into_sorted_iter()), prog, before.len(), Some(&reference), &|x: &(Key, Prio)| x.0.id(), &mut |_| {});
                    for (cl, msg) in &out.problems {
                        cx.fail(C06 | C13, cl, format!("PriorityQueue::into_sorted_iter: {}", msg));
                    }
                    let ys: Vec<(bool, usize, P3)> = out.yielded.iter().zip(out.skipped.iter()).map(|((b, (k, p)), s)| (*b, *s, (k.id(), p.v, k.payload))).collect();
                    check_sorted_episode(cx, C06 | C01, &before, &ys, true);
                }
                AnyQ::Dpq(x) => {
                    // positional reference only for programs that stay at the front (ties make the
                    // two ends of a min-max heap interact)
                    let front_only = !prog.iter().any(|o| matches!(o, ItOp::NextBack | ItOp::NthBack(_) | ItOp::RestLast | ItOp::RestRevEach));
                    let reference: Option<Vec<u32>> = if front_only { Some(x.clone().into_sorted_iter().map(|(k, _)| k.id()).collect()) } else { None };
                    let (out, _it) = run_prog(Dbl(x.into_sorted_iter()), prog, before.len(), reference.as_deref(), &|x: &(Key, Prio)| x.0.id(), &mut |_| {});
                    for (cl, msg) in &out.problems {
                        let t = match *cl {
                            "size_hint" | "size_hint_bounds" => C13,
                            _ => C06 | C13,
                        };
                        cx.fail(t, cl, format!("DoublePriorityQueue::into_sorted_iter: {}", msg));
                    }
                    let ys: Vec<(bool, usize, P3)> = out.yielded.iter().zip(out.skipped.iter()).map(|((b, (k, p)), s)| (*b, *s, (k.id(), p.v, k.payload))).collect();
                    check_sorted_episode(cx, C06 | C02, &before, &ys, false);
                }
            }
        }
        Step::IntoVec => {
            let before = q.contents();
            let ids: Vec<u32> = q.clone().into_vec().iter().map(|k| k.id()).collect();
            let mut a = ids.clone();
            a.sort();
            let mut b2: Vec<u32> = before.iter().map(|x| x.0).collect();
            b2.sort();
            expect!(cx, C03, "into_vec", a == b2, "into_vec yielded {:?}, stored {:?}", ids, b2);
            let ps: Vec<P3> = q.clone().into_pairs().iter().map(|(k, p)| (k.id(), p.v, k.payload)).collect();
            check_each_once(cx, C03 | C13, "into_iter", &before, &ps, true);
        }
    }
    let _ = tags;
}

fn hint_probe(h: &Hint) -> &'static str {
    match h.name() {
        "exact" => "hint_exact",
        "zero_none" => "hint_zero_none",
        "zero_upper" => "hint_zero_upper",
        "low_none" => "hint_low_none",
        "loose_huge" => "hint_loose_huge",
        "loose_big" => "hint_loose_big",
        _ => "hint_loose_small",
    }
}

/// For the items in `ids`, the stored item value must be the previously stored one or one of the
/// values given for that item; the model adopts whichever it is.
fn adopt_payloads(q: &AnyQ, m: &mut Model, ids: &[u32], given: &[P3], cx: &mut Ctx, tags: u32) {
    for k in ids {
        if let Some(h) = q.get_borrowed(&KeyId(*k)) {
            let old = m.get(*k).map(|e| e.1);
            let ok = old == Some(h.2) || given.iter().any(|g| g.0 == *k && g.2 == h.2);
            if ok {
                m.set_payload(*k, h.2);
            } else {
                cx.fail(tags, "clash_payload", format!("item {} stored with payload {:#x}, which is neither the stored one {:?} nor one of the given", k, h.2, old));
            }
        }
    }
}

/// `got` must be a stored element whose priority is extreme among `before` (unless order is
/// suspended, when it only has to be a stored element), and None iff the queue was empty.
fn check_extreme(cx: &mut Ctx, tags: u32, what: &'static str, e: End, before: &[P3], got: Option<P3>) {
    match got {
        None => expect!(cx, tags, "extreme_none", before.is_empty(), "{} returned None on a queue holding {} elements", what, before.len()),
        Some(x) => {
            let stored = before.iter().any(|b| b.0 == x.0 && b.1 == x.1);
            expect!(cx, tags, "extreme_not_stored", stored, "{} returned ({},{}) which is not stored; contents {:?}", what, x.0, x.1, short(before));
            if !cx.order_suspended {
                let ext = match e {
                    End::Max => before.iter().map(|b| b.1).max(),
                    End::Min => before.iter().map(|b| b.1).min(),
                };
                expect!(cx, tags, "not_extreme", ext == Some(x.1), "{} ({:?}) returned priority {} but the extreme stored priority is {:?}; contents {:?}", what, e, x.1, ext, short(before));
            }
        }
    }
}

fn short(v: &[P3]) -> String {
    let s: Vec<String> = v.iter().take(24).map(|x| format!("{}:{}", x.0, x.1)).collect();
    format!("[{}{}]", s.join(" "), if v.len() > 24 { " …" } else { "" })
}

/// every yielded element is a stored one, none twice; if `all`, every stored one is yielded
fn check_each_once(cx: &mut Ctx, tags: u32, what: &'static str, before: &[P3], ys: &[P3], all: bool) {
    let mut seen: BTreeMap<u32, u32> = BTreeMap::new();
    for y in ys {
        *seen.entry(y.0).or_insert(0) += 1;
        expect!(cx, tags, "yield_not_stored", before.iter().any(|b| b == y), "{} yielded {:?} which is not a stored element", what, y);
    }
    let dup: Vec<u32> = seen.iter().filter(|(_, n)| **n > 1).map(|(k, _)| *k).collect();
    expect!(cx, tags, "yield_twice", dup.is_empty(), "{} yielded items {:?} more than once", what, dup);
    if all {
        expect!(cx, tags, "yield_missing", ys.len() == before.len(), "{} yielded {} elements of {}", what, ys.len(), before.len());
    }
}

/// DPQ sorted iterator from both ends / PQ sorted iterator: each front yield is the minimum
/// (PQ: maximum) of what remains, each back yield the maximum.
fn check_sorted_episode(cx: &mut Ctx, tags: u32, before: &[P3], ys: &[(bool, usize, P3)], pq: bool) {
    let mut rem: BTreeMap<i32, u32> = BTreeMap::new();
    let mut ids: BTreeMap<u32, i32> = BTreeMap::new();
    for b in before {
        *rem.entry(b.1).or_insert(0) += 1;
        ids.insert(b.0, b.1);
    }
    fn take(rem: &mut BTreeMap<i32, u32>, p: i32) {
        if let Some(n) = rem.get_mut(&p) {
            *n -= 1;
            if *n == 0 {
                rem.remove(&p);
            }
        }
    }
    for (i, (back, skipped, y)) in ys.iter().enumerate() {
        let from_max = pq || *back;
        // elements consumed silently before this yield (nth / nth_back / last) are the extremes
        // of what remained at that end; their identity is not observable, their count is
        for _ in 0..*skipped {
            let ext = if from_max { rem.keys().next_back().copied() } else { rem.keys().next().copied() };
            // (which item it was is unknown, so `ids` only guards against yielding one twice)
            if let Some(p) = ext {
                take(&mut rem, p);
            }
        }
        match ids.remove(&y.0) {
            Some(p) if p == y.1 => {}
            other => {
                cx.fail(tags, "sorted_ep_elem", format!("sorted iterator yield #{} = {:?}: not a remaining stored element ({:?})", i, y, other));
                return;
            }
        }
        let want = if from_max { rem.keys().next_back().copied() } else { rem.keys().next().copied() };
        expect!(cx, tags, "sorted_ep_order", want == Some(y.1), "sorted iterator yield #{} from the {} (after skipping {}) has priority {}, the {} of what remains is {:?}", i, if *back { "back" } else { "front" }, skipped, y.1, if from_max { "maximum" } else { "minimum" }, want);
        take(&mut rem, y.1);
    }
}

// ------------------------------------------------------------------------------------------
// episodes

fn ep_iter_mut(q: &mut AnyQ, m: &mut Model, prog: &[ItOp], via: Via, end: GEnd, rule: &Rule, late: bool, cx: &mut Ctx) {
    let before = q.contents();
    let n = before.len();
    // returns (writes as (id, priority, payload), rewrote some priority)
    fn drive<'a, P: ProgIt<T = (&'a mut Key, &'a mut Prio)>>(it: P, prog: &[ItOp], total: usize, end: GEnd, rule: &Rule, late: bool, cx: &mut Ctx, exact: bool, reference: &[u32]) -> (Vec<(u32, Option<i32>, Option<u32>)>, bool) {
        let mut writes: Vec<(u32, Option<i32>, Option<u32>)> = Vec::new();
        let mut rewrote = false;
        // the client's loop body: runs at every yield, while the iterator is alive
        let mut body = |x: &mut (&'a mut Key, &'a mut Prio)| {
            let (k, p) = (&mut *x.0, &mut *x.1);
            let np = rule.rewrite(k.id(), p.v);
            let npl = rule.payload(k.id());
            if let Some(v) = np {
                if v != p.v {
                    rewrote = true;
                }
                p.v = v;
            }
            if let Some(v) = npl {
                k.payload = v;
            }
            writes.push((k.id(), np, npl));
        };
        let (out, it) = run_prog(it, prog, total, Some(reference), &|x: &(&'a mut Key, &'a mut Prio)| x.0.id(), &mut body);
        for (cl, msg) in &out.problems {
            match *cl {
                "size_hint_bounds" => cx.fail(C09, cl, format!("iter_mut: {}", msg)),
                "len" | "size_hint" if !exact => {}
                _ => cx.fail(C09, cl, format!("iter_mut: {}", msg)),
            }
        }
        // no two yielded references may address the same element
        let mut addrs: Vec<(usize, usize, u32)> = out.yielded.iter().map(|(_, (k, p))| (*k as *const Key as usize, *p as *const Prio as usize, k.id())).collect();
        addrs.sort();
        let mut alias = false;
        for w in addrs.windows(2) {
            if w[0].0 == w[1].0 || w[0].1 == w[1].1 {
                alias = true;
                cx.fail(C09 | C08, "iter_mut_alias", format!("iter_mut yielded two live mutable references to the same element (item {})", w[0].2));
                break;
            }
        }
        let mut ids: Vec<u32> = addrs.iter().map(|a| a.2).collect();
        ids.sort();
        ids.dedup();
        if !alias && ids.len() != addrs.len() {
            alias = true;
            cx.fail(C09 | C08, "iter_mut_twice", "iter_mut yielded the same item twice".to_string());
        }
        let mut yielded = out.yielded;
        match it {
            Some(it) => {
                if !alias {
                    // every reference is still alive together with the iterator: touch them all
                    // again (same values), so that an aliasing pair is a real conflict under Miri
                    for (_, (k, p)) in yielded.iter_mut() {
                        let v = p.v;
                        p.v = v;
                        let w = k.payload;
                        k.payload = w;
                    }
                }
                match end {
                    GEnd::Drop => drop(it),
                    GEnd::Forget => std::mem::forget(it),
                }
            }
            None => {
                // a terminal operation consumed (and dropped) the iterator. What last() returned
                // could not be written earlier; a client that writes a priority through it now
                // does so after the rebuild.
                if late && !alias {
                    if let Some((_, (k, p))) = yielded.last_mut() {
                        let np = rule.tv.wrapping_add(1);
                        if np != p.v {
                            p.v = np;
                            cx.late_write = true;
                            let id = k.id();
                            match writes.iter_mut().find(|w| w.0 == id) {
                                Some(w) => w.1 = Some(np),
                                None => writes.push((id, Some(np), None)),
                            }
                        }
                    }
                }
            }
        }
        (writes, rewrote)
    }
    // the iterator's own forward order, from a plain next() pass over an identical queue
    let fwd: Vec<u32> = both!(&mut q.clone(), qq => qq.iter_mut().map(|(k, _)| k.id()).collect());
    let reference: Vec<u32> = match via {
        Via::Rev if q.kind() == Kind::Dpq => fwd.iter().rev().copied().collect(),
        Via::Take(k) => fwd.iter().take(k).copied().collect(),
        _ => fwd,
    };
    let (writes, rewrote) = match q {
        AnyQ::Pq(pq) => match via {
            Via::Take(k) => drive(Fwd(pq.iter_mut().take(k)), prog, n.min(k), end, rule, late, cx, false, &reference),
            Via::RefMut => drive(Fwd((&mut *pq).into_iter()), prog, n, end, rule, late, cx, false, &reference),
            _ => drive(Fwd(pq.iter_mut()), prog, n, end, rule, late, cx, false, &reference),
        },
        AnyQ::Dpq(dq) => match via {
            Via::Direct => drive(Dbl(dq.iter_mut()), prog, n, end, rule, late, cx, true, &reference),
            Via::RefMut => drive(Dbl((&mut *dq).into_iter()), prog, n, end, rule, late, cx, true, &reference),
            Via::Rev => drive(Dbl(dq.iter_mut().rev()), prog, n, end, rule, late, cx, true, &reference),
            Via::Take(k) => drive(Dbl(dq.iter_mut().take(k)), prog, n.min(k), end, rule, late, cx, true, &reference),
        },
    };
    for (id, np, npl) in &writes {
        if let Some(v) = np {
            m.set_prio(*id, *v);
        }
        if let Some(v) = npl {
            m.set_payload(*id, *v);
        }
    }
    cx.ret(writes.len() as u64);
    cx.probe(match (end, writes.len() == n) {
        (GEnd::Drop, true) => "iter_mut_full_drop",
        (GEnd::Drop, false) => "iter_mut_prefix_drop",
        (GEnd::Forget, _) => "iter_mut_forget",
    });
    match end {
        GEnd::Drop => cx.order_suspended = false,
        GEnd::Forget => {
            if rewrote {
                cx.order_suspended = true;
                cx.probe("order_suspended_by_leak");
            }
        }
    }
}

fn ep_iter(q: &mut AnyQ, _m: &mut Model, which: ItKind, prog: &[ItOp], cx: &mut Ctx) {
    let before = q.contents();
    let n = before.len();
    let conv_ref = |x: &(bool, (&Key, &Prio))| (x.0, (x.1 .0.id(), x.1 .1.v, x.1 .0.payload));
    let conv_own = |x: &(bool, (Key, Prio))| (x.0, (x.1 .0.id(), x.1 .1.v, x.1 .0.payload));
    let idr = |x: &(&Key, &Prio)| x.0.id();
    let ido = |x: &(Key, Prio)| x.0.id();
    let (ys, problems, name): (Vec<(bool, P3)>, Vec<(&'static str, String)>, &'static str) = match which {
        ItKind::Iter => both!(q, qq => {
            let reference: Vec<u32> = qq.iter().map(|(k, _)| k.id()).collect();
            // half of the episodes obtain the iterator the way `for x in &queue` does
            let it = if prog.len() % 2 == 0 { (&*qq).into_iter() } else { qq.iter() };
            let (o, _) = run_prog(Dbl(it), prog, n, Some(&reference), &idr, &mut |_| {});
            (o.yielded.iter().map(conv_ref).collect(), o.problems, "iter")
        }),
        ItKind::IntoIter => both!(q.clone(), qq => {
            let reference: Vec<u32> = qq.clone().into_iter().map(|(k, _)| k.id()).collect();
            let (o, _) = run_prog(Dbl(qq.into_iter()), prog, n, Some(&reference), &ido, &mut |_| {});
            (o.yielded.iter().map(conv_own).collect(), o.problems, "into_iter")
        }),
        ItKind::Drain => both!(q.clone(), qq => {
            let mut qq = qq;
            let reference: Vec<u32> = qq.clone().drain().map(|(k, _)| k.id()).collect();
            let (o, _) = run_prog(Dbl(qq.drain()), prog, n, Some(&reference), &ido, &mut |_| {});
            (o.yielded.iter().map(conv_own).collect(), o.problems, "drain")
        }),
        ItKind::Sorted => {
            // handled by SortedEp (needs the order oracles); here only the iterator contract
            if cx.order_suspended {
                return;
            }
            match q.clone() {
                AnyQ::Pq(x) => {
                    let (o, _) = run_prog(Fwd(x.into_sorted_iter()), prog, n, None, &ido, &mut |_| {});
                    (o.yielded.iter().map(conv_own).collect(), o.problems, "into_sorted_iter")
                }
                AnyQ::Dpq(x) => {
                    let (o, _) = run_prog(Dbl(x.into_sorted_iter()), prog, n, None, &ido, &mut |_| {});
                    (o.yielded.iter().map(conv_own).collect(), o.problems, "into_sorted_iter")
                }
            }
        }
    };
    for (cl, msg) in &problems {
        cx.fail(C13, cl, format!("{}: {}", name, msg));
    }
    let flat: Vec<P3> = ys.iter().map(|x| x.1).collect();
    check_each_once(cx, C13, name, &before, &flat, false);
    cx.ret(flat.len() as u64);
    cx.probe("iter_episode");
}

/// `.len()` of standard adaptor compositions over an iterator that declares an exact size must
/// not panic and must be exact; consuming the adaptor must yield exactly that many elements.
fn ep_adapt(q: &mut AnyQ, which: ItKind, ad: Adaptor, cx: &mut Ctx) {
    let n = q.len();
    fn go<I: DoubleEndedIterator + ExactSizeIterator>(mk: &mut dyn FnMut() -> I, ad: Adaptor, n: usize) -> Result<(usize, usize, usize), Caught> {
        guarded(|| {
            let l = adapt_two(mk(), mk(), ad, n, true);
            let c2 = adapt_two(mk(), mk(), ad, n, false);
            (l.0, c2.0, l.1)
        })
    }
    let name = match which {
        ItKind::Iter => "iter",
        ItKind::IntoIter => "into_iter",
        ItKind::Drain => "drain",
        ItKind::Sorted => "into_sorted_iter",
    };
    let r = match which {
        ItKind::Iter => both!(q, qq => go(&mut || qq.iter(), ad, n)),
        ItKind::IntoIter => both!(q, qq => go(&mut || qq.clone().into_iter(), ad, n)),
        ItKind::Drain => both!(q, qq => guarded(|| {
            // a Drain borrows its queue: drain fresh clones
            let (mut a, mut b) = (qq.clone(), qq.clone());
            let l = adapt_two(a.drain(), b.drain(), ad, n, true);
            let (mut a2, mut b2) = (qq.clone(), qq.clone());
            let c2 = adapt_two(a2.drain(), b2.drain(), ad, n, false);
            (l.0, c2.0, l.1)
        })),
        ItKind::Sorted => match q {
            AnyQ::Pq(_) => return, // does not declare an exact size
            AnyQ::Dpq(qq) => {
                if cx.order_suspended {
                    return;
                }
                go(&mut || qq.clone().into_sorted_iter(), ad, n)
            }
        },
    };
    cx.probe("adaptor_checked");
    match r {
        Ok((len, count, want)) => {
            expect!(cx, C13, "adaptor_len", len == want, "{}().{:?}.len() = {} but it will yield {}", name, ad, len, want);
            expect!(cx, C13, "adaptor_count", count == want, "{}().{:?} yielded {} elements, expected {}", name, ad, count, want);
        }
        Err(Caught::Other(msg, loc)) => cx.fail(C13, "adaptor_panic", format!("{}().{:?}.len() panicked: {} @ {}", name, ad, msg, loc)),
        Err(e) => cx.fail(C13, "adaptor_panic", format!("{}().{:?} panicked: {:?}", name, ad, e)),
    }
}

/// (len or count, expected) of an adaptor built from one or two iterators of the same queue
fn adapt_two<I: DoubleEndedIterator + ExactSizeIterator>(a: I, b: I, ad: Adaptor, n: usize, want_len: bool) -> (usize, usize) {
    macro_rules! lc {
        ($e:expr) => {
            if want_len {
                $e.len()
            } else {
                $e.count()
            }
        };
    }
    match ad {
        Adaptor::Take(k) => (lc!(a.take(k)), n.min(k)),
        Adaptor::Skip(k) => (lc!(a.skip(k)), n.saturating_sub(k)),
        Adaptor::Zip => (lc!(a.zip(b)), n),
        Adaptor::Peekable => (lc!(a.peekable()), n),
        Adaptor::Rev => (lc!(a.rev()), n),
        Adaptor::Enumerate => (lc!(a.enumerate()), n),
        Adaptor::TakeSkip(x, y) => (lc!(a.take(x).skip(y)), n.min(x).saturating_sub(y)),
        Adaptor::RevTake(k) => (lc!(a.rev().take(k)), n.min(k)),
        Adaptor::SkipRev(k) => (lc!(a.skip(k).rev()), n.saturating_sub(k)),
        Adaptor::EnumerateRev => (lc!(a.enumerate().rev()), n),
        Adaptor::StepBy(k) => {
            let k = k.max(1);
            (lc!(a.step_by(k)), (n + k - 1) / k)
        }
        Adaptor::Chain => {
            let c2 = a.chain(b);
            if want_len {
                let (lo, hi) = c2.size_hint();
                (if hi == Some(lo) { lo } else { usize::MAX - 1 }, 2 * n)
            } else {
                (c2.count(), 2 * n)
            }
        }
    }
}

// ------------------------------------------------------------------------------------------
// probes computed from the pre-state snapshot (coverage only, never an alarm)

fn probe_remove(q: &AnyQ, k: u32, cx: &mut Ctx) {
    if !cx.snapshot || cx.light {
        return;
    }
    let s = q.snapshot();
    if s.size == 0 || s.heap.len() != s.size || s.qp.len() != s.size {
        return;
    }
    let n = s.size - 1;
    let idx = (0..s.size).find(|i| q.slot(*i).map_or(false, |t| t.0 == k));
    if let Some(i) = idx {
        let pos = s.qp[i];
        cx.probe(match (i < n, i < n && s.qp[n] == n, pos < n, pos < n && s.heap[n] == n) {
            (false, _, false, _) => "remove_last_slot_last_pos",
            (false, _, true, _) => "remove_last_slot_inner_pos",
            (true, true, false, _) => "remove_inner_slot_last_pos_a",
            (true, false, false, _) => "remove_inner_slot_last_pos_b",
            (true, true, true, true) => "remove_inner_inner_aa",
            (true, true, true, false) => "remove_inner_inner_ab",
            (true, false, true, true) => "remove_inner_inner_ba",
            (true, false, true, false) => "remove_inner_inner_bb",
        });
        if pos == 0 {
            cx.probe("remove_root");
        }
    }
}

fn probe_push(q: &AnyQ, m: &Model, k: u32, cx: &mut Ctx) {
    if cx.light {
        return;
    }
    cx.probe(if m.get(k).is_some() { "push_existing" } else { "push_new" });
    match q.len() {
        0 => cx.probe("size_0"),
        1 => cx.probe("size_1"),
        2 => cx.probe("size_2"),
        3 => cx.probe("size_3"),
        16..=63 => cx.probe("size_ge_16"),
        64..=usize::MAX => cx.probe("size_ge_64"),
        _ => {}
    }
}

fn probe_change(_q: &AnyQ, m: &Model, k: u32, p: i32, cx: &mut Ctx) {
    if cx.light {
        return;
    }
    if let Some(cur) = m.prio(k) {
        cx.probe(if p > cur { "change_raise" } else if p < cur { "change_lower" } else { "change_equal" });
        if m.m.values().all(|v| v.0 <= p) && p > cur {
            cx.probe("change_to_new_max");
        }
        if m.m.values().all(|v| v.0 >= p) && p < cur {
            cx.probe("change_to_new_min");
        }
    } else {
        cx.probe("change_absent");
    }
}

// ------------------------------------------------------------------------------------------
// oracles evaluated after every step

/// INV-T: the index tables the unchecked accesses trust are mutually consistent and agree with
/// the reported length (C04's own "equivalently").
pub fn check_tables(q: &AnyQ, cx: &mut Ctx, when: &str) {
    let s = q.snapshot();
    let n = s.size;
    if s.map_len != n || s.heap.len() != n || s.qp.len() != n {
        cx.fail(C04, "tables_len", format!("{}: len()={} map.len()={} heap.len()={} qp.len()={}", when, n, s.map_len, s.heap.len(), s.qp.len()));
        return;
    }
    for (pos, idx) in s.heap.iter().enumerate() {
        if *idx >= n || s.qp[*idx] != pos {
            cx.fail(C04, "tables_inverse", format!("{}: heap[{}]={} but qp[{}]={:?} (size {})", when, pos, idx, idx, s.qp.get(*idx), n));
            return;
        }
    }
}

/// signature of a small state: kind, size, heap -> slot permutation, rank pattern of the priorities
pub fn state_sig(q: &AnyQ, s: &[P3]) -> u64 {
    let snap = q.snapshot();
    let mut h = crate::rng::mix(s.len() as u64, q.kind() as u64);
    for x in &snap.heap {
        h = crate::rng::mix(h, *x as u64);
    }
    let mut ps: Vec<i32> = s.iter().map(|x| x.1).collect();
    ps.sort();
    ps.dedup();
    for x in s {
        h = crate::rng::mix(h, ps.binary_search(&x.1).unwrap_or(0) as u64);
    }
    h
}

pub fn post_check(q: &mut AnyQ, m: &Model, st: &Step, cx: &mut Ctx) {
    let kind = q.kind();
    let ot = ord_tag(kind);
    let tags = step_tags(st);
    let op_only = tags & !(C03 | C12 | C13 | C06);
    if cx.snapshot {
        check_tables(q, cx, "after step");
    }
    if let Some(v) = crate::queue::NE_DISAGREES.with(|c| c.take()) {
        cx.fail(C14, "ne_disagrees_with_eq", format!("for the same two queues `a == b` and `a != b` both returned {}", v));
    }
    let s = q.contents();
    let n = s.len();
    if cx.snapshot && n <= 10 {
        cx.sigs.push(state_sig(q, &s));
    }
    expect!(cx, tags, "len", q.len() == n && q.is_empty() == (n == 0), "len()={} is_empty()={} but iter() yields {} elements", q.len(), q.is_empty(), n);
    // contents against the model
    let mut sorted = s.clone();
    sorted.sort();
    let dup = sorted.windows(2).any(|w| w[0].0 == w[1].0);
    expect!(cx, tags, "dup_item", !dup, "iter() yields an item twice: {}", short(&sorted));
    let same = sorted.len() == m.len() && sorted.iter().zip(m.m.iter()).all(|(a, (k, v))| a.0 == *k && a.1 == v.0);
    if !same {
        let mm: Vec<P3> = m.m.iter().map(|(k, v)| (*k, v.0, v.1)).collect();
        cx.fail(tags, "contents", format!("contents differ after {}: queue {} model {}", st.fam().name(), short(&sorted), short(&mm)));
    } else {
        let plsame = sorted.iter().zip(m.m.iter()).all(|(a, (_, v))| a.2 == v.1);
        if !plsame {
            let bad: Vec<String> = sorted.iter().zip(m.m.iter()).filter(|(a, (_, v))| a.2 != v.1).take(4).map(|(a, (_, v))| format!("item {}: stored payload {:#x}, expected {:#x}", a.0, a.2, v.1)).collect();
            cx.fail(C12 | (tags & (C07 | C14 | C15 | C08 | C16)), "payload", format!("item values differ after {}: {}", st.fam().name(), bad.join("; ")));
        }
    }
    // lookups: the keys this step named plus a rotating sample of the universe
    if !cx.light || cx.step_no % 16 == 0 {
        let mut keys: Vec<u32> = Vec::new();
        match st {
            Step::Push { k, .. } | Step::PushInc { k, .. } | Step::PushDec { k, .. } | Step::Change { k, .. } | Step::ChangeBy { k, .. } | Step::Remove { k, .. } | Step::Get { k, .. } | Step::GetMut { k, .. } => keys.push(*k),
            _ => {}
        }
        let u = cx.universe.max(1);
        let base = cx.step_no.wrapping_mul(7);
        for i in 0..(if u <= 12 { u } else { 6 }) {
            keys.push((base + i * 5) % (u + 1));
        }
        for k in keys {
            let exp = m.get(k).map(|e| (k, e.0, e.1));
            let a = q.get_borrowed(&KeyId(k));
            let key = Key::new(k, 0xdead);
            let b = q.get_owned(&key);
            let pa = q.get_priority_borrowed(&KeyId(k));
            let pb = q.get_priority_owned(&key);
            let gm = q.get_mut_owned(&key).map(|(kk, p)| (kk.id(), p.v, kk.payload));
            if a.map(|x| (x.0, x.1)) != exp.map(|x| (x.0, x.1)) || pa != exp.map(|x| x.1) || gm.map(|x| (x.0, x.1)) != exp.map(|x| (x.0, x.1)) {
                cx.fail(tags, "lookup", format!("lookup of item {}: get={:?} get_priority={:?} get_mut={:?}, model says {:?}", k, a, pa, gm, exp));
            }
            if a != b || pa != pb {
                cx.fail(C12 | C03, "lookup_borrowed", format!("item {}: borrowed lookup {:?}/{:?} differs from owned lookup {:?}/{:?}", k, a, pa, b, pb));
            }
            if let (Some(x), Some(e)) = (a, exp) {
                expect!(cx, C12, "lookup_payload", x.2 == e.2, "get({}) has payload {:#x}, model says {:#x}", k, x.2, e.2);
            }
        }
    }
    if cx.order_suspended {
        if n == 0 {
            cx.order_suspended = false;
        } else {
            return;
        }
    }
    // the extremes, judged against what the queue itself reports as stored
    let ord_tags = ot | op_only;
    let fails_before_order = cx.fails.len();
    match kind {
        Kind::Pq => {
            let pk = q.peek(End::Max);
            check_extreme(cx, ord_tags, "peek", End::Max, &s, pk);
        }
        Kind::Dpq => {
            let a = q.peek(End::Min);
            check_extreme(cx, ord_tags, "peek_min", End::Min, &s, a);
            let b = q.peek(End::Max);
            check_extreme(cx, ord_tags, "peek_max", End::Max, &s, b);
        }
    }
    if cx.deep && !cx.fails.iter().any(|f| f.props & C04 != 0 && f.class.starts_with("tables")) {
        deep_order(q, &s, ord_tags | C06, cx);
    }
    if cx.late_write && cx.fails.len() > fails_before_order {
        // the order is wrong because a priority was written through an iter_mut reference after
        // the iterator had been dropped (and the heap rebuilt): one finding, one class
        for f in cx.fails[fails_before_order..].iter_mut() {
            f.class = "order_after_late_iter_mut_write";
            f.props = C08;
            f.msg = format!("a priority written through a reference yielded by iter_mut after the iterator was dropped (e.g. `iter_mut().last()`) is never followed by a rebuild: {}", f.msg);
        }
    }
    if cx.late_write {
        // from here on the order is unspecified until the next rebuild, whether or not the damage
        // is already visible
        cx.order_suspended = true;
    }
}

/// Consume clones with the sorted consumers; every extraction must be an extreme of what remains.
pub fn deep_order(q: &AnyQ, s: &[P3], tags: u32, cx: &mut Ctx) {
    let mut all: Vec<i32> = s.iter().map(|x| x.1).collect();
    all.sort();
    match q.clone() {
        AnyQ::Pq(x) => {
            let got: Vec<P3> = x.into_sorted_iter().map(|(k, p)| (k.id(), p.v, k.payload)).collect();
            let ps: Vec<i32> = got.iter().map(|g| g.1).collect();
            let mut want = all.clone();
            want.reverse();
            if ps != want {
                cx.fail(tags, "drain_order", format!("draining a clone by pop yields priorities {:?}, stored (sorted) {:?}", trunc(&ps), trunc(&want)));
            } else {
                check_each_once(cx, tags, "drain by pop", s, &got, true);
            }
        }
        AnyQ::Dpq(x) => {
            let mut a = x.clone();
            let mut ps = Vec::with_capacity(all.len());
            while let Some((_, p)) = a.pop_min() {
                ps.push(p.v);
                if ps.len() > all.len() {
                    break;
                }
            }
            if ps != all {
                cx.fail(tags, "drain_order_min", format!("draining a clone by pop_min yields {:?}, stored (sorted) {:?}", trunc(&ps), trunc(&all)));
                return;
            }
            let mut b = x.clone();
            let mut ps = Vec::with_capacity(all.len());
            while let Some((_, p)) = b.pop_max() {
                ps.push(p.v);
                if ps.len() > all.len() {
                    break;
                }
            }
            let mut want = all.clone();
            want.reverse();
            if ps != want {
                cx.fail(tags, "drain_order_max", format!("draining a clone by pop_max yields {:?}, stored (sorted) {:?}", trunc(&ps), trunc(&want)));
                return;
            }
            // interleaved ends, pattern derived from the step number
            let mut cq = x;
            let (mut lo, mut hi) = (0usize, all.len());
            let mut h = crate::rng::mix(cx.step_no as u64, 0x5eed);
            let mut ids = Vec::with_capacity(all.len());
            while lo < hi {
                h = crate::rng::mix(h, 1);
                let from_max = h & 1 == 1;
                let r = if from_max { cq.pop_max() } else { cq.pop_min() };
                let want = if from_max { all[hi - 1] } else { all[lo] };
                match r {
                    Some((k, p)) if p.v == want => ids.push((k.id(), p.v, k.payload)),
                    other => {
                        cx.fail(tags, "drain_order_mixed", format!("interleaved draining: {} returned {:?}, the extreme of what remains is {}", if from_max { "pop_max" } else { "pop_min" }, other.map(|(k, p)| (k.id(), p.v)), want));
                        return;
                    }
                }
                if from_max {
                    hi -= 1
                } else {
                    lo += 1
                }
            }
            let empty = cq.pop_min().is_none() && cq.pop_max().is_none();
            expect!(cx, tags, "drain_not_empty", empty, "a fully drained clone still yields elements");
            check_each_once(cx, tags, "interleaved drain", s, &ids, true);
        }
    }
}

fn trunc(v: &[i32]) -> Vec<i32> {
    v.iter().take(32).copied().collect()
}

#[allow(dead_code)]
pub fn _unused(_: DynState) {}
