//! C15 (S6 seam): deserialization from storage this crate's serializer did not (or not alone)
//! produce: arbitrary well-typed pair sequences with repeated items, through JSON text and
//! through a serde sequence deserializer with and without a length hint; and storage faults on
//! a queue's own serialization (record duplication, reordering, loss, truncation, bit flips).

use crate::engines::{REAL, STUBBED};
use crate::exec::*;
use crate::orch::*;
use crate::queue::*;
use crate::rng::{mix, Rng};
use crate::types::*;
use serde::de::value::{Error as ValueError, SeqDeserializer};
use serde::{Deserialize, Serialize};
use serde_json::json;
use std::collections::BTreeMap;

#[derive(Clone, Copy, Debug, PartialEq, Eq, Serialize, Deserialize)]
pub enum Via {
    Json,
    /// serde::de::value::SeqDeserializer with an exact length hint
    SeqExact,
    /// the same without a length hint
    SeqNoHint,
}

#[derive(Clone, Copy, Debug, PartialEq, Eq, Serialize, Deserialize)]
pub enum StorageFault {
    DupRecord(usize),
    DupRecordAtEnd(usize),
    DropRecord(usize),
    Swap(usize, usize),
    Truncate(usize),
    BitFlip(usize, u8),
    /// a record of another queue's serialization spliced in (merged arrays)
    Splice(u64, i32),
}

#[derive(Clone, Debug, Serialize, Deserialize)]
pub enum Input {
    /// an arbitrary well-typed sequence of (item, priority) pairs; item = id | payload << 32
    Pairs { pairs: Vec<(u64, i32)>, via: Via },
    /// the serialization of the queue built by pushing `pairs`, then damaged
    Mutated { pairs: Vec<(u32, i32, u32)>, src: Kind, faults: Vec<StorageFault> },
    /// a length-prefixed binary image (u64 count, then 12-byte records) of `pairs`, damaged, and
    /// read back by a deserializer that reports the stored count as its length hint — what
    /// bincode / MessagePack-style formats do
    /// `src`: None = the image is written by the harness from `pairs` as they are (repeats
    /// possible); Some(kind) = a queue of that kind is built by pushing `pairs` and writes the
    /// image itself through its `Serialize` impl (round trip checked before the damage)
    Framed { pairs: Vec<(u64, i32)>, faults: Vec<FrameFault>, #[serde(default)] src: Option<Kind> },
    /// `n` pairs of zero-sized items and priorities (`Queue<(), ()>`, std hasher) from a
    /// sequence deserializer that reports `hint`
    Zst { n: usize, hint: Option<usize> },
}

#[derive(Clone, Copy, Debug, PartialEq, Eq, Serialize, Deserialize)]
pub enum FrameFault {
    /// the count field is overwritten (torn or foreign header)
    Count(u64),
    Truncate(usize),
    BitFlip(usize, u8),
    /// flip one bit of the count field
    CountBit(u8),
}

pub fn frame_image(pairs: &[(u64, i32)], faults: &[FrameFault]) -> Vec<u8> {
    let mut v: Vec<u8> = Vec::with_capacity(8 + 12 * pairs.len());
    v.extend_from_slice(&(pairs.len() as u64).to_le_bytes());
    for (k, p) in pairs {
        v.extend_from_slice(&k.to_le_bytes());
        v.extend_from_slice(&p.to_le_bytes());
    }
    frame_damage(v, faults)
}

pub fn frame_damage(mut v: Vec<u8>, faults: &[FrameFault]) -> Vec<u8> {
    for f in faults {
        match *f {
            FrameFault::Count(c) if v.len() >= 8 => v[..8].copy_from_slice(&c.to_le_bytes()),
            FrameFault::CountBit(b) if v.len() >= 8 => v[(b as usize % 64) / 8] ^= 1 << (b % 8),
            FrameFault::Count(_) | FrameFault::CountBit(_) => {}
            FrameFault::Truncate(n) => {
                let l = v.len();
                v.truncate(l - (n % (l + 1)).min(l));
            }
            FrameFault::BitFlip(at, bit) => {
                if !v.is_empty() {
                    let l = v.len();
                    v[at % l] ^= 1 << (bit % 8);
                }
            }
        }
    }
    v
}

/// (stored count, complete records present) of an image, read independently of the crate
pub fn frame_parse(img: &[u8]) -> Option<(u64, Vec<(u64, i32)>)> {
    if img.len() < 8 {
        return None;
    }
    let c = u64::from_le_bytes(img[..8].try_into().unwrap());
    let recs = img[8..].chunks_exact(12).map(|r| (u64::from_le_bytes(r[..8].try_into().unwrap()), i32::from_le_bytes(r[8..].try_into().unwrap()))).collect();
    Some((c, recs))
}

mod framed {
    //! The reader of the simulated length-prefixed storage format.
    use serde::de::value::Error as ValueError;
    use serde::de::{DeserializeSeed, Deserializer, Error, IntoDeserializer, SeqAccess, Visitor};
    use serde::forward_to_deserialize_any;

    pub struct FramedDe<'a>(pub &'a [u8]);
    struct Records<'a> {
        rest: &'a [u8],
        remaining: u64,
    }
    struct Rec(u64, i32, u8);

    impl<'de, 'a> Deserializer<'de> for FramedDe<'a> {
        type Error = ValueError;
        fn deserialize_any<V: Visitor<'de>>(self, v: V) -> Result<V::Value, ValueError> {
            if self.0.len() < 8 {
                return Err(ValueError::custom("unexpected end of input in the count field"));
            }
            let c = u64::from_le_bytes(self.0[..8].try_into().unwrap());
            v.visit_seq(Records { rest: &self.0[8..], remaining: c })
        }
        forward_to_deserialize_any! { bool i8 i16 i32 i64 i128 u8 u16 u32 u64 u128 f32 f64 char str string bytes byte_buf option unit unit_struct newtype_struct seq tuple tuple_struct map struct enum identifier ignored_any }
    }
    impl<'de, 'a> SeqAccess<'de> for Records<'a> {
        type Error = ValueError;
        fn next_element_seed<T: DeserializeSeed<'de>>(&mut self, seed: T) -> Result<Option<T::Value>, ValueError> {
            if self.remaining == 0 {
                return Ok(None);
            }
            if self.rest.len() < 12 {
                return Err(ValueError::custom("unexpected end of input in a record"));
            }
            let k = u64::from_le_bytes(self.rest[..8].try_into().unwrap());
            let p = i32::from_le_bytes(self.rest[8..12].try_into().unwrap());
            self.rest = &self.rest[12..];
            self.remaining -= 1;
            seed.deserialize(Rec(k, p, 0)).map(Some)
        }
        fn size_hint(&self) -> Option<usize> {
            Some(usize::try_from(self.remaining).unwrap_or(usize::MAX))
        }
    }
    /// `n` records of two units each
    pub struct ZstDe {
        pub n: usize,
        pub hint: Option<usize>,
    }
    struct ZstRec(u8);
    impl<'de> Deserializer<'de> for ZstDe {
        type Error = ValueError;
        fn deserialize_any<V: Visitor<'de>>(self, v: V) -> Result<V::Value, ValueError> {
            v.visit_seq(self)
        }
        forward_to_deserialize_any! { bool i8 i16 i32 i64 i128 u8 u16 u32 u64 u128 f32 f64 char str string bytes byte_buf option unit unit_struct newtype_struct seq tuple tuple_struct map struct enum identifier ignored_any }
    }
    impl<'de> SeqAccess<'de> for ZstDe {
        type Error = ValueError;
        fn next_element_seed<T: DeserializeSeed<'de>>(&mut self, seed: T) -> Result<Option<T::Value>, ValueError> {
            if self.n == 0 {
                return Ok(None);
            }
            self.n -= 1;
            self.hint = self.hint.map(|h| h.saturating_sub(1));
            seed.deserialize(ZstRec(0)).map(Some)
        }
        fn size_hint(&self) -> Option<usize> {
            self.hint
        }
    }
    impl<'de> Deserializer<'de> for ZstRec {
        type Error = ValueError;
        fn deserialize_any<V: Visitor<'de>>(self, v: V) -> Result<V::Value, ValueError> {
            v.visit_seq(self)
        }
        forward_to_deserialize_any! { bool i8 i16 i32 i64 i128 u8 u16 u32 u64 u128 f32 f64 char str string bytes byte_buf option unit unit_struct newtype_struct seq tuple tuple_struct map struct enum identifier ignored_any }
    }
    impl<'de> SeqAccess<'de> for ZstRec {
        type Error = ValueError;
        fn next_element_seed<T: DeserializeSeed<'de>>(&mut self, seed: T) -> Result<Option<T::Value>, ValueError> {
            self.0 += 1;
            if self.0 > 2 {
                return Ok(None);
            }
            seed.deserialize(IntoDeserializer::<ValueError>::into_deserializer(())).map(Some)
        }
        fn size_hint(&self) -> Option<usize> {
            Some(2usize.saturating_sub(self.0 as usize))
        }
    }

    impl<'de> Deserializer<'de> for Rec {
        type Error = ValueError;
        fn deserialize_any<V: Visitor<'de>>(self, v: V) -> Result<V::Value, ValueError> {
            v.visit_seq(self)
        }
        forward_to_deserialize_any! { bool i8 i16 i32 i64 i128 u8 u16 u32 u64 u128 f32 f64 char str string bytes byte_buf option unit unit_struct newtype_struct seq tuple tuple_struct map struct enum identifier ignored_any }
    }
    impl<'de> SeqAccess<'de> for Rec {
        type Error = ValueError;
        fn next_element_seed<T: DeserializeSeed<'de>>(&mut self, seed: T) -> Result<Option<T::Value>, ValueError> {
            self.2 += 1;
            match self.2 {
                1 => seed.deserialize(IntoDeserializer::<ValueError>::into_deserializer(self.0)).map(Some),
                2 => seed.deserialize(IntoDeserializer::<ValueError>::into_deserializer(self.1)).map(Some),
                _ => Ok(None),
            }
        }
        fn size_hint(&self) -> Option<usize> {
            Some(2usize.saturating_sub(self.2 as usize))
        }
    }
}

mod framed_ser {
    //! The writer of the simulated length-prefixed storage format: like bincode it needs the
    //! sequence length up front and writes what `serialize_seq` was told, then the elements.
    use serde::de::value::Error as ValueError;
    use serde::ser::{Error, Impossible, Serialize, SerializeSeq, SerializeTuple, Serializer};

    pub struct Top;
    pub struct Seq {
        out: Vec<u8>,
    }
    struct Rec<'a>(&'a mut Vec<u8>);
    struct Scalar<'a>(&'a mut Vec<u8>);

    macro_rules! unsupported {
        ($($m:ident($($t:ty),*);)*) => { $(fn $m(self $(, _: $t)*) -> Result<Self::Ok, ValueError> { Err(ValueError::custom(concat!("framed format: unsupported ", stringify!($m)))) })* };
    }
    macro_rules! common {
        () => {
            type Error = ValueError;
            type SerializeTupleStruct = Impossible<Self::Ok, ValueError>;
            type SerializeTupleVariant = Impossible<Self::Ok, ValueError>;
            type SerializeMap = Impossible<Self::Ok, ValueError>;
            type SerializeStruct = Impossible<Self::Ok, ValueError>;
            type SerializeStructVariant = Impossible<Self::Ok, ValueError>;
            unsupported! { serialize_bool(bool); serialize_i8(i8); serialize_i16(i16); serialize_i64(i64); serialize_u8(u8); serialize_u16(u16); serialize_u32(u32); serialize_f32(f32); serialize_f64(f64); serialize_char(char); serialize_str(&str); serialize_bytes(&[u8]); serialize_none(); serialize_unit(); serialize_unit_struct(&'static str); serialize_unit_variant(&'static str, u32, &'static str); }
            fn serialize_some<T: ?Sized + Serialize>(self, _: &T) -> Result<Self::Ok, ValueError> { Err(ValueError::custom("framed format: unsupported option")) }
            fn serialize_newtype_struct<T: ?Sized + Serialize>(self, _: &'static str, _: &T) -> Result<Self::Ok, ValueError> { Err(ValueError::custom("framed format: unsupported newtype")) }
            fn serialize_newtype_variant<T: ?Sized + Serialize>(self, _: &'static str, _: u32, _: &'static str, _: &T) -> Result<Self::Ok, ValueError> { Err(ValueError::custom("framed format: unsupported variant")) }
            fn serialize_tuple_struct(self, _: &'static str, _: usize) -> Result<Self::SerializeTupleStruct, ValueError> { Err(ValueError::custom("framed format: unsupported")) }
            fn serialize_tuple_variant(self, _: &'static str, _: u32, _: &'static str, _: usize) -> Result<Self::SerializeTupleVariant, ValueError> { Err(ValueError::custom("framed format: unsupported")) }
            fn serialize_map(self, _: Option<usize>) -> Result<Self::SerializeMap, ValueError> { Err(ValueError::custom("framed format: unsupported")) }
            fn serialize_struct(self, _: &'static str, _: usize) -> Result<Self::SerializeStruct, ValueError> { Err(ValueError::custom("framed format: unsupported")) }
            fn serialize_struct_variant(self, _: &'static str, _: u32, _: &'static str, _: usize) -> Result<Self::SerializeStructVariant, ValueError> { Err(ValueError::custom("framed format: unsupported")) }
        };
    }

    impl Serializer for Top {
        type Ok = Vec<u8>;
        type SerializeSeq = Seq;
        type SerializeTuple = Impossible<Vec<u8>, ValueError>;
        common!();
        unsupported! { serialize_i32(i32); serialize_u64(u64); }
        fn serialize_seq(self, len: Option<usize>) -> Result<Seq, ValueError> {
            let len = len.ok_or_else(|| ValueError::custom("framed format: the sequence length is required up front"))?;
            Ok(Seq { out: (len as u64).to_le_bytes().to_vec() })
        }
        fn serialize_tuple(self, _: usize) -> Result<Self::SerializeTuple, ValueError> {
            Err(ValueError::custom("framed format: a sequence was expected"))
        }
    }
    impl SerializeSeq for Seq {
        type Ok = Vec<u8>;
        type Error = ValueError;
        fn serialize_element<T: ?Sized + Serialize>(&mut self, v: &T) -> Result<(), ValueError> {
            v.serialize(Rec(&mut self.out))
        }
        fn end(self) -> Result<Vec<u8>, ValueError> {
            Ok(self.out)
        }
    }
    impl<'a> Serializer for Rec<'a> {
        type Ok = ();
        type SerializeSeq = Impossible<(), ValueError>;
        type SerializeTuple = Self;
        common!();
        unsupported! { serialize_i32(i32); serialize_u64(u64); }
        fn serialize_seq(self, _: Option<usize>) -> Result<Self::SerializeSeq, ValueError> {
            Err(ValueError::custom("framed format: a record was expected"))
        }
        fn serialize_tuple(self, n: usize) -> Result<Self, ValueError> {
            if n != 2 {
                return Err(ValueError::custom("framed format: a record has two fields"));
            }
            Ok(self)
        }
    }
    impl<'a> SerializeTuple for Rec<'a> {
        type Ok = ();
        type Error = ValueError;
        fn serialize_element<T: ?Sized + Serialize>(&mut self, v: &T) -> Result<(), ValueError> {
            v.serialize(Scalar(self.0))
        }
        fn end(self) -> Result<(), ValueError> {
            Ok(())
        }
    }
    impl<'a> Serializer for Scalar<'a> {
        type Ok = ();
        type SerializeSeq = Impossible<(), ValueError>;
        type SerializeTuple = Impossible<(), ValueError>;
        common!();
        fn serialize_u64(self, v: u64) -> Result<(), ValueError> {
            self.0.extend_from_slice(&v.to_le_bytes());
            Ok(())
        }
        fn serialize_i32(self, v: i32) -> Result<(), ValueError> {
            self.0.extend_from_slice(&v.to_le_bytes());
            Ok(())
        }
        fn serialize_seq(self, _: Option<usize>) -> Result<Self::SerializeSeq, ValueError> {
            Err(ValueError::custom("framed format: a scalar was expected"))
        }
        fn serialize_tuple(self, _: usize) -> Result<Self::SerializeTuple, ValueError> {
            Err(ValueError::custom("framed format: a scalar was expected"))
        }
    }
}

fn ser_framed(q: &AnyQ) -> Result<Result<Vec<u8>, String>, Caught> {
    guarded(|| both!(q, x => x.serialize(framed_ser::Top)).map_err(|e| e.to_string()))
}

fn de_framed(kind: Kind, img: &[u8]) -> Result<Result<AnyQ, String>, Caught> {
    guarded(|| match kind {
        Kind::Pq => PQ::deserialize(framed::FramedDe(img)).map(AnyQ::Pq).map_err(|e| e.to_string()),
        Kind::Dpq => DPQ::deserialize(framed::FramedDe(img)).map(AnyQ::Dpq).map_err(|e| e.to_string()),
    })
}

#[derive(Clone, Debug, Serialize, Deserialize)]
pub struct SerdeBody {
    pub kind: Kind,
    pub hasher: crate::hashers::HasherKind,
    pub input: Input,
}

/// A deserialized queue must be a fully valid queue.
fn validity(q: &AnyQ) -> Option<(&'static str, String)> {
    let s = q.contents();
    if q.len() != s.len() || q.is_empty() != s.is_empty() {
        return Some(("de_len", format!("len()={} but the queue holds {} elements", q.len(), s.len())));
    }
    let mut ids: Vec<u32> = s.iter().map(|x| x.0).collect();
    ids.sort();
    let n0 = ids.len();
    ids.dedup();
    if ids.len() != n0 {
        return Some(("de_dup_item", format!("an item is stored twice: {:?}", s)));
    }
    let mut cx = Ctx::new(8);
    check_tables(q, &mut cx, "after deserialization");
    if let Some(f) = cx.fails.first() {
        return Some(("de_tables", f.msg.clone()));
    }
    deep_order(q, &s, C15, &mut cx);
    match q.kind() {
        Kind::Pq => {
            let pk = q.peek(End::Max);
            let mx = s.iter().map(|x| x.1).max();
            if pk.map(|x| x.1) != mx {
                cx.fail(C15, "de_peek", format!("peek reports {:?}, the maximum stored priority is {:?}", pk, mx));
            }
        }
        Kind::Dpq => {
            let a = q.peek(End::Min).map(|x| x.1);
            let b = q.peek(End::Max).map(|x| x.1);
            if a != s.iter().map(|x| x.1).min() || b != s.iter().map(|x| x.1).max() {
                cx.fail(C15, "de_peek", format!("peek_min/peek_max report {:?}/{:?}, contents {:?}", a, b, s));
            }
        }
    }
    if let Some(f) = cx.fails.first() {
        return Some(("de_order", f.msg.clone()));
    }
    // fully usable: take it through a few operations
    let mut c2 = q.clone();
    let fresh = (0..=u32::MAX).rev().find(|k| !ids.contains(k)).unwrap_or(0);
    if c2.push(Key::new(fresh, 1), Prio::new(i32::MAX)).is_some() {
        return Some(("de_usable", "push of a fresh item reported an old priority".into()));
    }
    if c2.peek(End::Max).map(|x| x.1) != Some(i32::MAX) || c2.len() != s.len() + 1 {
        return Some(("de_usable", "after pushing a new maximum, peek/len disagree".into()));
    }
    if let Some(first) = s.first() {
        let r = c2.change_priority_borrowed(&KeyId(first.0), Prio::new(i32::MIN)).map(|p| p.v);
        if r != Some(first.1) {
            return Some(("de_usable", format!("change_priority of stored item {} returned {:?}", first.0, r)));
        }
        let r = c2.remove_borrowed(&KeyId(first.0));
        if r.map(|(k, p)| (k.id(), p.v)) != Some((first.0, i32::MIN)) {
            return Some(("de_usable", format!("remove of stored item {} failed", first.0)));
        }
    }
    let mut n = 0;
    let mut last = i32::MAX;
    while let Some((_, p)) = c2.pop(End::Max) {
        if p.v > last {
            return Some(("de_usable", "pops out of order after deserialization".into()));
        }
        last = p.v;
        n += 1;
        if n > s.len() + 2 {
            break;
        }
    }
    if n != s.len() + 1 - (!s.is_empty()) as usize {
        return Some(("de_usable", format!("popped {} elements from a queue of {}", n, s.len())));
    }
    None
}

fn fail(class: &'static str, msg: String) -> FailRec {
    FailRec { props: "C15".into(), class: class.into(), msg, step: 0 }
}

fn de_json(kind: Kind, s: &str) -> Result<Result<AnyQ, String>, Caught> {
    guarded(|| AnyQ::from_json(kind, s))
}

fn de_seq(kind: Kind, pairs: &[(u64, i32)], hint: bool) -> Result<Result<AnyQ, String>, Caught> {
    let recs: Vec<Vec<i64>> = pairs.iter().map(|(k, p)| vec![*k as i64, *p as i64]).collect();
    guarded(|| {
        if hint {
            let d: SeqDeserializer<_, ValueError> = SeqDeserializer::new(recs.into_iter());
            match kind {
                Kind::Pq => PQ::deserialize(d).map(AnyQ::Pq).map_err(|e| e.to_string()),
                Kind::Dpq => DPQ::deserialize(d).map(AnyQ::Dpq).map_err(|e| e.to_string()),
            }
        } else {
            let d: SeqDeserializer<_, ValueError> = SeqDeserializer::new(recs.into_iter().filter(|_| true));
            match kind {
                Kind::Pq => PQ::deserialize(d).map(AnyQ::Pq).map_err(|e| e.to_string()),
                Kind::Dpq => DPQ::deserialize(d).map(AnyQ::Dpq).map_err(|e| e.to_string()),
            }
        }
    })
}

pub struct SerdeOut {
    pub fail: Option<FailRec>,
    pub outcome: &'static str,
}

pub fn run_serde_case(b: &SerdeBody) -> SerdeOut {
    ledger_reset();
    crate::hashers::reset_instances();
    disarm_all();
    crate::hashers::set_current(b.hasher);
    let panic_fail = |e: Caught, what: String| {
        let msg = match e {
            Caught::Other(m, l) => format!("{} @ {}", m, l),
            o => format!("{:?}", o),
        };
        SerdeOut { fail: Some(fail("de_panic", format!("deserializing {} panicked: {}", what, msg))), outcome: "panic" }
    };
    match &b.input {
        Input::Pairs { pairs, via } => {
            // keys must be well-typed for the sequence deserializer (non-negative i64)
            let text = serde_json::to_string(&pairs).unwrap();
            let r = match via {
                Via::Json => de_json(b.kind, &text),
                Via::SeqExact => de_seq(b.kind, pairs, true),
                Via::SeqNoHint => de_seq(b.kind, pairs, false),
            };
            let what = format!("the pair sequence {} via {:?}", if text.len() > 300 { format!("{}…", &text[..300]) } else { text.clone() }, via);
            match r {
                Err(e) => panic_fail(e, what),
                Ok(Err(_)) => SerdeOut { fail: None, outcome: "err" },
                Ok(Ok(q)) => {
                    if let Some((c, m)) = validity(&q) {
                        return SerdeOut { fail: Some(fail(c, format!("{}: {}", what, m))), outcome: "invalid" };
                    }
                    // every distinct item once, with one of the priorities given for it
                    let mut given: BTreeMap<u32, Vec<i32>> = BTreeMap::new();
                    for (k, p) in pairs {
                        given.entry(*k as u32).or_default().push(*p);
                    }
                    let s = q.contents();
                    let got: BTreeMap<u32, i32> = s.iter().map(|x| (x.0, x.1)).collect();
                    if got.len() != given.len() || got.iter().any(|(k, p)| !given.get(k).map_or(false, |v| v.contains(p))) {
                        return SerdeOut { fail: Some(fail("de_contents", format!("{}: deserialized contents {:?} are not 'every distinct item once with one of its priorities'", what, got))), outcome: "invalid" };
                    }
                    SerdeOut { fail: None, outcome: if given.len() < pairs.len() { "ok_with_repeats" } else { "ok" } }
                }
            }
        }
        Input::Zst { n, hint } => {
            let (n, hint) = (*n, *hint);
            let what = format!("{} pairs of zero-sized values with length hint {:?}", n, hint);
            macro_rules! zst {
                ($Q:ident, $pop:ident, $peek:ident) => {
                    guarded(|| -> Result<Option<String>, String> {
                        let mut q = priority_queue::$Q::<(), ()>::deserialize(framed::ZstDe { n, hint }).map_err(|e| e.to_string())?;
                        let want = n.min(1);
                        if q.len() != want || q.iter().count() != want || q.is_empty() != (want == 0) {
                            return Ok(Some(format!("len() = {}, iter().count() = {}, expected {}", q.len(), q.iter().count(), want)));
                        }
                        if q.$peek().is_some() != (want == 1) {
                            return Ok(Some("peek disagrees with the contents".into()));
                        }
                        if q.push((), ()).is_some() != (want == 1) {
                            return Ok(Some("push of the only possible item returned the wrong previous priority".into()));
                        }
                        if q.$pop().is_none() || q.$pop().is_some() || !q.is_empty() {
                            return Ok(Some("pops after deserialization are wrong".into()));
                        }
                        Ok(None)
                    })
                };
            }
            let r = match b.kind {
                Kind::Pq => zst!(PriorityQueue, pop, peek),
                Kind::Dpq => zst!(DoublePriorityQueue, pop_min, peek_max),
            };
            match r {
                Err(e) => panic_fail(e, what),
                Ok(Err(_)) => SerdeOut { fail: None, outcome: "err" },
                Ok(Ok(Some(m))) => SerdeOut { fail: Some(fail("de_usable", format!("{}: {}", what, m))), outcome: "invalid" },
                Ok(Ok(None)) => SerdeOut { fail: None, outcome: "ok" },
            }
        }
        Input::Framed { pairs, faults, src } => {
            let img = match src {
                None => frame_image(pairs, faults),
                Some(sk) => {
                    let mut q0 = construct(*sk, Ctor::WithHasher);
                    for (k, p) in pairs {
                        q0.push(Key::new(*k as u32, (*k >> 32) as u32), Prio::new(*p));
                    }
                    let clean = match ser_framed(&q0) {
                        Err(e) => return panic_fail(e, "serializing a queue into the length-prefixed format".into()),
                        Ok(Err(e)) => return SerdeOut { fail: Some(fail("roundtrip_err", format!("serializing a queue of {} elements into the length-prefixed format failed: {}", q0.len(), e))), outcome: "invalid" },
                        Ok(Ok(v)) => v,
                    };
                    let shown: String = clean.iter().take(48).map(|b| format!("{:02x}", b)).collect();
                    match de_framed(b.kind, &clean) {
                        Err(e) => return panic_fail(e, format!("a queue's own length-prefixed serialization {}", shown)),
                        Ok(Err(e)) => return SerdeOut { fail: Some(fail("roundtrip_err", format!("a queue of {} elements wrote the length-prefixed image {}… ({} bytes); reading it back failed: {}", q0.len(), shown, clean.len(), e))), outcome: "invalid" },
                        Ok(Ok(q1)) => {
                            if let Some((c, m)) = validity(&q1) {
                                return SerdeOut { fail: Some(fail(c, format!("round trip through the length-prefixed format: {}", m))), outcome: "invalid" };
                            }
                            let mut a = q1.contents();
                            let mut b0 = q0.contents();
                            a.sort();
                            b0.sort();
                            if a != b0 {
                                return SerdeOut { fail: Some(fail("roundtrip_contents", format!("round trip through the length-prefixed format changed the contents: {:?} -> {:?} (image {}…)", b0, a, shown))), outcome: "invalid" };
                            }
                            if b.kind == *sk && !(q1.eq_q(&q0) && q0.eq_q(&q1)) {
                                return SerdeOut { fail: Some(fail("roundtrip_eq", "deserialize(serialize(q)) != q (length-prefixed format)".into())), outcome: "invalid" };
                            }
                        }
                    }
                    frame_damage(clean, faults)
                }
            };
            let hex: String = img.iter().take(64).map(|b| format!("{:02x}", b)).collect();
            let what = format!("the length-prefixed image {}{} ({} bytes)", hex, if img.len() > 64 { "…" } else { "" }, img.len());
            if track_level() >= 2 {
                track_line(2, &format!("FRAMED count field = {:?}", frame_parse(&img).map(|x| x.0)));
            }
            match de_framed(b.kind, &img) {
                Err(e) => {
                    let mut o = panic_fail(e, what);
                    if let (Some(f), Some((c, recs))) = (o.fail.as_mut(), frame_parse(&img)) {
                        if c > recs.len() as u64 {
                            f.class = "de_panic_length_hint".into();
                            f.msg = format!("{} [the stored count {} exceeds the {} records present]", f.msg, c, recs.len());
                        }
                    }
                    o
                }
                Ok(Err(_)) => SerdeOut { fail: None, outcome: "err" },
                Ok(Ok(q)) => {
                    if let Some((c, m)) = validity(&q) {
                        return SerdeOut { fail: Some(fail(c, format!("{}: {}", what, m))), outcome: "invalid" };
                    }
                    let (c, recs) = frame_parse(&img).unwrap_or((0, Vec::new()));
                    let read = &recs[..(c.min(recs.len() as u64)) as usize];
                    let mut given: BTreeMap<u32, Vec<i32>> = BTreeMap::new();
                    for (k, p) in read {
                        given.entry(*k as u32).or_default().push(*p);
                    }
                    let got: BTreeMap<u32, i32> = q.contents().iter().map(|x| (x.0, x.1)).collect();
                    if got.len() != given.len() || got.iter().any(|(k, p)| !given.get(k).map_or(false, |v| v.contains(p))) {
                        return SerdeOut { fail: Some(fail("de_contents", format!("{}: deserialized contents {:?} are not 'every distinct item of the {} records read, once, with one of its priorities'", what, got, read.len()))), outcome: "invalid" };
                    }
                    SerdeOut { fail: None, outcome: if faults.is_empty() { "ok" } else { "ok_damaged" } }
                }
            }
        }
        Input::Mutated { pairs, src, faults } => {
            let mut q0 = construct(*src, Ctor::WithHasher);
            for (k, p, pl) in pairs {
                q0.push(Key::new(*k, *pl), Prio::new(*p));
            }
            let text = q0.to_json();
            // round trip first (both directions)
            match de_json(b.kind, &text) {
                Err(e) => return panic_fail(e, format!("a queue's own serialization {}", text)),
                Ok(Err(e)) => return SerdeOut { fail: Some(fail("roundtrip_err", format!("deserializing a queue's own serialization failed: {} ({})", e, text))), outcome: "invalid" },
                Ok(Ok(q1)) => {
                    if let Some((c, m)) = validity(&q1) {
                        return SerdeOut { fail: Some(fail(c, format!("round trip of {}: {}", text, m))), outcome: "invalid" };
                    }
                    let mut a = q1.contents();
                    let mut b0 = q0.contents();
                    a.sort();
                    b0.sort();
                    if a != b0 {
                        return SerdeOut { fail: Some(fail("roundtrip_contents", format!("round trip changed the contents: {:?} -> {:?}", b0, a))), outcome: "invalid" };
                    }
                    if b.kind == *src && !(q1.eq_q(&q0) && q0.eq_q(&q1)) {
                        return SerdeOut { fail: Some(fail("roundtrip_eq", "deserialize(serialize(q)) != q".into())), outcome: "invalid" };
                    }
                    // the same through Deserialize::deserialize_in_place (what serde-derived code
                    // with its in-place option calls) into a queue that holds something else
                    let mut place = construct(b.kind, Ctor::WithHasher);
                    for k in 0..(pairs.len() as u32 % 4) {
                        place.push(Key::new(0xfff0_0000 + k, 9), Prio::new(k as i32));
                    }
                    let r = guarded(|| {
                        let mut d = serde_json::Deserializer::from_str(&text);
                        match &mut place {
                            AnyQ::Pq(x) => serde::Deserialize::deserialize_in_place(&mut d, x).map_err(|e| e.to_string()),
                            AnyQ::Dpq(x) => serde::Deserialize::deserialize_in_place(&mut d, x).map_err(|e| e.to_string()),
                        }
                    });
                    match r {
                        Err(e) => return panic_fail(e, format!("deserialize_in_place of a queue's own serialization {}", text)),
                        Ok(Err(e)) => return SerdeOut { fail: Some(fail("roundtrip_err", format!("deserialize_in_place of a queue's own serialization failed: {} ({})", e, text))), outcome: "invalid" },
                        Ok(Ok(())) => {
                            let mut c = place.contents();
                            c.sort();
                            if c != a {
                                return SerdeOut { fail: Some(fail("roundtrip_contents", format!("deserialize_in_place into a queue that held other elements gives {:?}, the serialized queue holds {:?}", c, a))), outcome: "invalid" };
                            }
                            if let Some((c, m)) = validity(&place) {
                                return SerdeOut { fail: Some(fail(c, format!("deserialize_in_place of {}: {}", text, m))), outcome: "invalid" };
                            }
                        }
                    }
                }
            }
            // then the storage faults
            let mut recs: Vec<serde_json::Value> = serde_json::from_str(&text).unwrap_or_default();
            let mut bytes: Option<Vec<u8>> = None;
            for f in faults {
                match *f {
                    StorageFault::DupRecord(i) if !recs.is_empty() => {
                        let r = recs[i % recs.len()].clone();
                        recs.insert(i % recs.len(), r);
                    }
                    StorageFault::DupRecordAtEnd(i) if !recs.is_empty() => {
                        let r = recs[i % recs.len()].clone();
                        recs.push(r);
                    }
                    StorageFault::DropRecord(i) if !recs.is_empty() => {
                        recs.remove(i % recs.len());
                    }
                    StorageFault::Swap(i, j) if !recs.is_empty() => {
                        let n = recs.len();
                        recs.swap(i % n, j % n);
                    }
                    StorageFault::Splice(k, p) => {
                        let at = if recs.is_empty() { 0 } else { (k as usize) % (recs.len() + 1) };
                        recs.insert(at, json!([k, p]));
                    }
                    StorageFault::Truncate(n) => {
                        let mut v = bytes.take().unwrap_or_else(|| serde_json::to_vec(&recs).unwrap());
                        let l = v.len();
                        v.truncate(l - (n % (l + 1)).min(l));
                        bytes = Some(v);
                    }
                    StorageFault::BitFlip(at, bit) => {
                        let mut v = bytes.take().unwrap_or_else(|| serde_json::to_vec(&recs).unwrap());
                        if !v.is_empty() {
                            let l = v.len();
                            v[at % l] ^= 1 << (bit % 8);
                        }
                        bytes = Some(v);
                    }
                    _ => {}
                }
            }
            let damaged = bytes.unwrap_or_else(|| serde_json::to_vec(&recs).unwrap());
            let dtext = String::from_utf8_lossy(&damaged).to_string();
            match de_json(b.kind, &dtext) {
                Err(e) => panic_fail(e, format!("the damaged serialization {}", dtext)),
                Ok(Err(_)) => SerdeOut { fail: None, outcome: "err" },
                Ok(Ok(q)) => match validity(&q) {
                    Some((c, m)) => SerdeOut { fail: Some(fail(c, format!("damaged serialization {}: {}", dtext, m))), outcome: "invalid" },
                    None => SerdeOut { fail: None, outcome: "ok_damaged" },
                },
            }
        }
    }
}

pub struct SerdeEngine {
    pub quick_runs: u64,
    pub thorough_runs: u64,
}

impl Engine for SerdeEngine {
    fn prop(&self) -> &'static str {
        "C15"
    }
    fn info(&self) -> EngineInfo {
        EngineInfo {
            level: "exploration",
            unit: "deserialization cases (input sequence or damaged serialization, target kind, transport)",
            rule: "two fifths of the cases are arbitrary well-typed pair sequences over universes of 1..12 items (so that repeats are the norm), through JSON text and through serde's SeqDeserializer with and without a length hint; two fifths are a queue's own JSON with 0..3 storage faults (record duplicated in place / at the end, dropped, swapped, foreign record spliced in, truncation, bit flip), in all four kind directions; one fifth are length-prefixed binary images (the stored count is what the deserializer reports as its length hint) with 0..2 faults: count field overwritten or bit-flipped, truncation, bit flips anywhere. Non-trivial = an input with a repeated item or at least one storage fault; distinct = digest of the case".into(),
            real: REAL.to_vec(),
            stubbed: STUBBED.to_vec(),
            assumptions: vec!["the length-prefixed binary format is a stub of this harness (u64 count reported as SeqAccess::size_hint, 12-byte records), standing in for bincode / MessagePack-style formats, which are not in the cargo cache".into(), "sampling, not proof".into()],
            fault_kinds: vec!["record duplication", "record loss", "record reordering", "foreign record spliced in", "truncation", "bit flip", "missing length hint", "count field overwritten", "count field bit flip"],
            exhaustive_note: None,
        }
    }
    fn runs(&self, tier: Tier) -> u64 {
        match tier {
            Tier::Quick => self.quick_runs,
            Tier::Thorough => self.thorough_runs,
        }
    }
    fn run_one(&self, seed: u64, idx: u64, _tier: Tier, acc: &mut Acc) {
        let mut r = Rng::new(mix(seed, idx) ^ 0xC15);
        let kind = if r.chance(1, 2) { Kind::Pq } else { Kind::Dpq };
        let hasher = match r.below(8) {
            0 => crate::hashers::HasherKind::Collide,
            1 => crate::hashers::HasherKind::Mul,
            _ => crate::hashers::HasherKind::Seeded(r.next(), r.next()),
        };
        let universe = 1 + r.below(12);
        let prio = |r: &mut Rng| match r.below(6) {
            0 => i32::MAX,
            1 => i32::MIN,
            2 => 0,
            _ => r.range(-5, 5) as i32,
        };
        let which = r.below(5);
        let input = if r.chance(1, 40) {
            let n = r.usize(6);
            let hint = match r.below(5) {
                0 => None,
                1 => Some(n),
                2 => Some(0),
                3 => Some(n + 1 + r.usize(100)),
                _ => Some(usize::MAX >> r.below(4)),
            };
            Input::Zst { n, hint }
        } else if which == 4 {
            let big = r.chance(1, 100);
            let universe = if big { 3000 + r.below(6000) } else { universe };
            let n = match r.below(6) {
                _ if big => *r.pick(&[4095usize, 4096, 4097, 4200, 6000, 9000]),
                0 => 0,
                1 => 1,
                _ => r.usize(24),
            };
            if big {
                acc.bump("probes", "framed_records_beyond_the_preallocation_cap", 1);
            }
            let pairs: Vec<(u64, i32)> = (0..n).map(|i| (r.below(universe + 4) | ((i as u64 + 1) << 32), prio(&mut r))).collect();
            let nf = r.usize(3);
            let faults: Vec<FrameFault> = (0..nf)
                .map(|_| match r.below(8) {
                    0 | 1 => FrameFault::Count(match r.below(10) {
                        0 => 0,
                        1 => (n as u64).saturating_sub(1),
                        2 => n as u64 + 1,
                        3 => 2 * n as u64 + 3,
                        4 => 1 << 16,
                        5 => (1 << 31) + r.below(4),
                        6 => 1 << (33 + r.below(20)),
                        7 => u64::MAX >> r.below(6),
                        8 => u64::MAX,
                        _ => r.next(),
                    }),
                    2 | 3 => FrameFault::CountBit(r.below(64) as u8),
                    4 => FrameFault::Truncate(r.usize(40)),
                    _ => FrameFault::BitFlip(r.usize(4096), r.below(8) as u8),
                })
                .collect();
            let src = match r.below(3) {
                0 => None,
                1 => Some(Kind::Pq),
                _ => Some(Kind::Dpq),
            };
            Input::Framed { pairs, faults, src }
        } else if which < 2 {
            // (one case in 300: thousands of pairs, around the deserializer's pre-allocation cap)
            let big = r.chance(1, 150);
            let universe = if big { 3000 + r.below(6000) } else { universe };
            let n = match r.below(6) {
                _ if big => *r.pick(&[4095usize, 4096, 4097, 4200, 6000, 9000]),
                0 => 0,
                1 => 1,
                2 => 2,
                _ => r.usize(30),
            };
            let pairs: Vec<(u64, i32)> = (0..n).map(|i| (r.below(universe) | ((i as u64 + 1) << 32), prio(&mut r))).collect();
            if big {
                acc.bump("probes", "pairs_beyond_the_preallocation_cap", 1);
            }
            Input::Pairs { pairs, via: if big { *r.pick(&[Via::SeqExact, Via::SeqExact, Via::SeqNoHint, Via::Json]) } else { *r.pick(&[Via::Json, Via::Json, Via::SeqExact, Via::SeqNoHint]) } }
        } else {
            let n = r.usize(20);
            let pairs: Vec<(u32, i32, u32)> = (0..n).map(|i| (r.below(universe + 8) as u32, prio(&mut r), 0x50 + i as u32)).collect();
            let nf = r.usize(4);
            let faults: Vec<StorageFault> = (0..nf)
                .map(|_| match r.below(9) {
                    0 | 1 => StorageFault::DupRecord(r.usize(64)),
                    2 => StorageFault::DupRecordAtEnd(r.usize(64)),
                    3 => StorageFault::DropRecord(r.usize(64)),
                    4 => StorageFault::Swap(r.usize(64), r.usize(64)),
                    5 => StorageFault::Splice(r.below(universe + 8), prio(&mut r)),
                    6 => StorageFault::Truncate(r.usize(40)),
                    _ => StorageFault::BitFlip(r.usize(4096), r.below(8) as u8),
                })
                .collect();
            Input::Mutated { pairs, src: if r.chance(1, 2) { Kind::Pq } else { Kind::Dpq }, faults }
        };
        let body = SerdeBody { kind, hasher, input };
        let text = serde_json::to_string(&body).unwrap();
        let d = text.bytes().fold(0xcbf2_9ce4_8422_2325u64, |h, b| (h ^ b as u64).wrapping_mul(0x100_0000_01b3));
        acc.counters.insert("last_digest".into(), d);
        if track_level() >= 2 {
            track_line(2, &format!("B {}", text));
        }
        let out = run_serde_case(&body);
        acc.runs += 1;
        acc.steps += 1;
        acc.bump("probes", &format!("outcome_{}", out.outcome), 1);
        let nontrivial = match &body.input {
            Input::Pairs { pairs, via } => {
                acc.bump("probes", &format!("via_{:?}", via), 1);
                let mut ids: Vec<u32> = pairs.iter().map(|p| p.0 as u32).collect();
                ids.sort();
                let n0 = ids.len();
                ids.dedup();
                ids.len() < n0
            }
            Input::Zst { n, hint } => {
                acc.bump("probes", "via_zero_sized_values", 1);
                *n > 1 && hint.is_some()
            }
            Input::Framed { pairs, faults, src } => {
                acc.bump("probes", if src.is_some() { "via_LengthPrefixedBinary_written_by_the_queue" } else { "via_LengthPrefixedBinary_raw_pairs" }, 1);
                for f in faults {
                    let n = match f {
                        FrameFault::Count(_) => "count_field_overwritten",
                        FrameFault::CountBit(_) => "count_field_bit_flip",
                        FrameFault::Truncate(_) => "truncation",
                        FrameFault::BitFlip(..) => "bit_flip",
                    };
                    acc.bump("faults", n, 1);
                }
                let mut shown = pairs.clone();
                if src.is_some() {
                    let mut seen = std::collections::BTreeSet::new();
                    shown.retain(|x| seen.insert(x.0 as u32));
                }
                if let Some((c, recs)) = frame_parse(&frame_image(&shown, faults)) {
                    let cls = if c == recs.len() as u64 {
                        "framed_count_exact"
                    } else if c < recs.len() as u64 {
                        "framed_count_below_records_present"
                    } else if c < 1 << 20 {
                        "framed_count_above_records_present"
                    } else if c < 1 << 48 {
                        "framed_count_huge"
                    } else {
                        "framed_count_beyond_isize_max_bytes"
                    };
                    acc.bump("probes", cls, 1);
                }
                !faults.is_empty()
            }
            Input::Mutated { faults, .. } => {
                for f in faults {
                    let n = match f {
                        StorageFault::DupRecord(_) | StorageFault::DupRecordAtEnd(_) => "record_duplication",
                        StorageFault::DropRecord(_) => "record_loss",
                        StorageFault::Swap(..) => "record_reordering",
                        StorageFault::Splice(..) => "foreign_record_spliced",
                        StorageFault::Truncate(_) => "truncation",
                        StorageFault::BitFlip(..) => "bit_flip",
                    };
                    acc.bump("faults", n, 1);
                }
                !faults.is_empty()
            }
        };
        if nontrivial {
            acc.nontrivial_runs += 1;
            acc.digests.push(d);
        }
        if acc.samples.len() < 2 && nontrivial && text.len() < 400 {
            acc.samples.push(json!({"run": idx, "case": body, "outcome": out.outcome}));
        }
        if let Some(f) = out.fail {
            acc.violations.push(Case { property: "C15".into(), seed, run: idx, body: serde_json::to_value(&body).unwrap(), fail: Some(f), minimised: false, original_steps: 0 });
        }
    }
    fn replay(&self, body: &serde_json::Value) -> Result<Option<FailRec>, String> {
        let b: SerdeBody = serde_json::from_value(body.clone()).map_err(|e| e.to_string())?;
        Ok(run_serde_case(&b).fail)
    }
    fn shrink_candidates(&self, body: &serde_json::Value, _fail: &FailRec) -> Vec<serde_json::Value> {
        let b: SerdeBody = match serde_json::from_value(body.clone()) {
            Ok(b) => b,
            Err(_) => return Vec::new(),
        };
        let mut out = Vec::new();
        match &b.input {
            Input::Pairs { pairs, via } => {
                let n = pairs.len();
                if n > 1 {
                    out.push(Input::Pairs { pairs: pairs[..n / 2].to_vec(), via: *via });
                    out.push(Input::Pairs { pairs: pairs[n / 2..].to_vec(), via: *via });
                }
                for i in 0..n {
                    let mut v = pairs.clone();
                    v.remove(i);
                    out.push(Input::Pairs { pairs: v, via: *via });
                }
                for i in 0..n {
                    if pairs[i].1 != 0 || pairs[i].0 >> 32 != 0 {
                        let mut v = pairs.clone();
                        v[i] = (v[i].0 & 0xffff_ffff, 0);
                        out.push(Input::Pairs { pairs: v, via: *via });
                    }
                }
                if *via != Via::Json {
                    out.push(Input::Pairs { pairs: pairs.clone(), via: Via::Json });
                }
            }
            Input::Zst { n, hint } => {
                if *n > 0 {
                    out.push(Input::Zst { n: n - 1, hint: *hint });
                }
                if hint.is_some() {
                    out.push(Input::Zst { n: *n, hint: None });
                    out.push(Input::Zst { n: *n, hint: Some(*n) });
                }
            }
            Input::Framed { pairs, faults, src } => {
                let src = *src;
                for i in 0..faults.len() {
                    let mut f = faults.clone();
                    f.remove(i);
                    out.push(Input::Framed { pairs: pairs.clone(), faults: f, src });
                }
                let n = pairs.len();
                if n > 1 {
                    out.push(Input::Framed { pairs: pairs[..n / 2].to_vec(), faults: faults.clone(), src });
                }
                for i in 0..n {
                    let mut v = pairs.clone();
                    v.remove(i);
                    out.push(Input::Framed { pairs: v, faults: faults.clone(), src });
                }
                for i in 0..n {
                    if pairs[i].1 != 0 || pairs[i].0 >> 32 != 0 {
                        let mut v = pairs.clone();
                        v[i] = (v[i].0 & 0xffff_ffff, 0);
                        out.push(Input::Framed { pairs: v, faults: faults.clone(), src });
                    }
                }
                for i in 0..faults.len() {
                    if let FrameFault::CountBit(b) = faults[i] {
                        let mut f = faults.clone();
                        f[i] = FrameFault::Count(pairs.len() as u64 ^ (1 << (b % 64)));
                        out.push(Input::Framed { pairs: pairs.clone(), faults: f, src });
                    }
                    if let FrameFault::Count(c) = faults[i] {
                        if c != u64::MAX {
                            let mut f = faults.clone();
                            f[i] = FrameFault::Count(u64::MAX);
                            out.push(Input::Framed { pairs: pairs.clone(), faults: f, src });
                        }
                    }
                }
            }
            Input::Mutated { pairs, src, faults } => {
                for i in 0..faults.len() {
                    let mut f = faults.clone();
                    f.remove(i);
                    out.push(Input::Mutated { pairs: pairs.clone(), src: *src, faults: f });
                }
                let n = pairs.len();
                if n > 1 {
                    out.push(Input::Mutated { pairs: pairs[..n / 2].to_vec(), src: *src, faults: faults.clone() });
                    out.push(Input::Mutated { pairs: pairs[n / 2..].to_vec(), src: *src, faults: faults.clone() });
                }
                for i in 0..n {
                    let mut v = pairs.clone();
                    v.remove(i);
                    out.push(Input::Mutated { pairs: v, src: *src, faults: faults.clone() });
                }
            }
        }
        out.into_iter().map(|i| serde_json::to_value(&SerdeBody { kind: b.kind, hasher: crate::hashers::HasherKind::Seeded(1, 2), input: i }).unwrap()).collect()
    }
    fn abort_is_violation(&self, _body: &serde_json::Value, class: &str) -> bool {
        class.starts_with("abort_unsafe") || class.starts_with("abort_heap") || class.starts_with("abort_signal") || class == "abort_stack_overflow" || class == "abort_alloc_failure"
    }
    fn size_of(&self, body: &serde_json::Value) -> usize {
        serde_json::to_string(body).map_or(0, |s| s.len())
    }
}
