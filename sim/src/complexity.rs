//! C05: the comparator is the simulated clock. Every `Ord::cmp` is one tick; each request has a
//! deadline in ticks: O(log n) for single-element operations, 0 (peek_max: 1) for peeks and
//! lookups, O(n) for the bulk operations that re-establish order. One run measures one
//! (kind, priority pattern, seed) at two sizes and checks absolute bounds and growth.

use crate::engines::{REAL, STUBBED};
use crate::orch::*;
use crate::queue::*;
use crate::rng::{mix, Rng};
use crate::sources::HintedSource;
use crate::steps::Hint;
use crate::types::*;
use serde::{Deserialize, Serialize};
use serde_json::json;
use std::collections::BTreeMap;

#[derive(Clone, Copy, Debug, PartialEq, Eq, Serialize, Deserialize)]
pub enum Pattern {
    Ascending,
    Descending,
    Constant,
    Random,
    OrganPipe,
    FewValues,
}

#[derive(Clone, Debug, Serialize, Deserialize)]
pub struct CxBody {
    pub kind: Kind,
    pub pattern: Pattern,
    pub seed: u64,
    pub lo_log2: u32,
    pub hi_log2: u32,
}

fn prio_of(pattern: Pattern, i: usize, n: usize, r: &mut Rng) -> i32 {
    match pattern {
        Pattern::Ascending => i as i32,
        Pattern::Descending => (n - i) as i32,
        Pattern::Constant => 7,
        Pattern::Random => r.range(-1_000_000, 1_000_000) as i32,
        Pattern::OrganPipe => (if i < n / 2 { i } else { n - i }) as i32,
        Pattern::FewValues => r.below(4) as i32,
    }
}

fn ceil_log2(n: usize) -> u64 {
    (usize::BITS - n.leading_zeros()) as u64
}

pub fn log_bound(n: usize) -> u64 {
    12 * ceil_log2(n + 1) + 16
}
pub fn lin_bound(n: usize) -> u64 {
    10 * n as u64 + 16
}

/// worst ticks per operation name at one size; bulk operations as ticks (with their n)
pub struct Measured {
    pub log_ops: BTreeMap<&'static str, u64>,
    pub zero_ops: BTreeMap<&'static str, u64>,
    pub bulk_ops: BTreeMap<&'static str, (u64, usize)>,
    pub ops: u64,
}

fn timed<R>(f: impl FnOnce() -> R) -> (u64, R) {
    let t0 = clock();
    let r = f();
    (clock() - t0, r)
}

fn build(kind: Kind, pattern: Pattern, n: usize, r: &mut Rng) -> (u64, AnyQ) {
    let v: Vec<(Key, Prio)> = (0..n).map(|i| (Key::new(i as u32, 0), Prio::new(prio_of(pattern, i, n, r)))).collect();
    timed(|| AnyQ::from_vec(kind, v))
}

/// item id stored at heap position `pos`
fn id_at(q: &AnyQ, pos: usize) -> Option<u32> {
    let s = q.snapshot();
    s.heap.get(pos).and_then(|slot| q.slot(*slot)).map(|t| t.0)
}

pub fn measure(kind: Kind, pattern: Pattern, n: usize, seed: u64) -> Measured {
    ledger_reset();
    crate::hashers::reset_instances();
    disarm_all();
    crate::hashers::set_current(crate::hashers::HasherKind::Mul);
    let mut r = Rng::new(mix(seed, n as u64));
    let mut m = Measured { log_ops: BTreeMap::new(), zero_ops: BTreeMap::new(), bulk_ops: BTreeMap::new(), ops: 0 };
    fn rec(m: &mut BTreeMap<&'static str, u64>, k: &'static str, t: u64) {
        let e = m.entry(k).or_insert(0);
        *e = (*e).max(t);
    }
    let (t, mut q) = build(kind, pattern, n, &mut r);
    m.bulk_ops.insert("from_vec", (t, n));
    let mut next_id = n as u32;
    let levels = ceil_log2(n + 1) as usize;
    let rounds = 12;
    for round in 0..rounds {
        let len = q.len();
        if len < 4 || len < n / 2 {
            break;
        }
        // positions from every level: first and last of the level, and a random one
        let mut positions: Vec<usize> = vec![0, len - 1, r.usize(len)];
        let lv = round % levels.max(1);
        let start = (1usize << lv) - 1;
        if start < len {
            positions.push(start);
            positions.push(((1usize << (lv + 1)) - 2).min(len - 1));
        }
        // ---- peeks and lookups: no comparison at all (peek_max: at most one)
        for e in [End::Min, End::Max] {
            let (t, _) = timed(|| q.peek(e));
            rec(&mut m.zero_ops, if kind == Kind::Dpq && e == End::Max { "peek_max" } else { "peek" }, t);
            let (t, _) = timed(|| q.peek_mut(e).map(|_| ()));
            rec(&mut m.zero_ops, if kind == Kind::Dpq && e == End::Max { "peek_max_mut" } else { "peek_mut" }, t);
        }
        let (t, _) = timed(|| (q.len(), q.is_empty(), q.capacity()));
        rec(&mut m.zero_ops, "len", t);
        let probe = Key::new(r.usize(len) as u32, 0);
        let (t, _) = timed(|| (q.get_owned(&probe), q.get_priority_owned(&probe), q.get_borrowed(&KeyId(1)), q.get_mut_owned(&probe).map(|_| ())));
        rec(&mut m.zero_ops, "get", t);
        // ---- updates of elements at chosen positions to both extremes, equal, random
        for pos in positions {
            let len = q.len();
            let id = match id_at(&q, pos.min(len - 1)) {
                Some(i) => i,
                None => continue,
            };
            let cur = q.get_priority_borrowed(&KeyId(id)).unwrap_or(0);
            for (name_c, name_b, name_p, target) in [
                ("change_priority_to_max", "change_priority_by_to_max", "push_existing_to_max", i32::MAX - round as i32),
                ("change_priority_to_min", "change_priority_by_to_min", "push_existing_to_min", i32::MIN + round as i32),
                ("change_priority_equal", "change_priority_by_equal", "push_existing_equal", cur),
                ("change_priority_random", "change_priority_by_random", "push_existing_random", r.range(-1_000_000, 1_000_000) as i32),
            ] {
                let (t, _) = timed(|| q.change_priority_borrowed(&KeyId(id), Prio::new(target)));
                rec(&mut m.log_ops, name_c, t);
                let (t, _) = timed(|| q.change_priority_by_borrowed(&KeyId(id), |p| p.v = cur));
                rec(&mut m.log_ops, name_b, t);
                let (t, _) = timed(|| q.push(Key::new(id, 1), Prio::new(target)));
                rec(&mut m.log_ops, name_p, t);
                let (t, _) = timed(|| q.push_increase(Key::new(id, 1), Prio::new(target.saturating_add(1))));
                rec(&mut m.log_ops, "push_increase", t);
                let (t, _) = timed(|| q.push_decrease(Key::new(id, 1), Prio::new(cur)));
                rec(&mut m.log_ops, "push_decrease", t);
                m.ops += 5;
            }
        }
        // ---- operations naming an absent item
        {
            let absent = KeyId(u32::MAX - round as u32);
            let (t, _) = timed(|| q.change_priority_borrowed(&absent, Prio::new(5)));
            rec(&mut m.log_ops, "change_priority_absent", t);
            let (t, _) = timed(|| q.change_priority_by_borrowed(&absent, |p| p.v = 5));
            rec(&mut m.log_ops, "change_priority_by_absent", t);
            let (t, _) = timed(|| q.remove_borrowed(&absent));
            rec(&mut m.log_ops, "remove_absent", t);
            m.ops += 3;
        }
        // ---- insertion of new elements: new minimum, new maximum, middle
        for (name, p) in [("push_new_max", i32::MAX - 100), ("push_new_min", i32::MIN + 100), ("push_new_middle", r.range(-1000, 1000) as i32)] {
            let (t, _) = timed(|| q.push(Key::new(next_id, 0), Prio::new(p)));
            next_id += 1;
            rec(&mut m.log_ops, name, t);
            m.ops += 1;
        }
        // ---- removals: root, last, by level
        let len = q.len();
        for pos in [0, len - 1, r.usize(len), (start).min(len - 1)] {
            if let Some(id) = id_at(&q, pos.min(q.len().saturating_sub(1))) {
                let (t, _) = timed(|| q.remove_borrowed(&KeyId(id)));
                rec(&mut m.log_ops, "remove", t);
                m.ops += 1;
            }
        }
        // ---- extraction at both ends, conditional extraction with both outcomes
        for e in [End::Min, End::Max] {
            let (t, _) = timed(|| q.pop(e));
            rec(&mut m.log_ops, "pop", t);
            let (t, _) = timed(|| q.pop_if(e, |_, _| true));
            rec(&mut m.log_ops, "pop_if_accept", t);
            // rejected and rewritten to the opposite extreme: the element must sink through the heap
            let far = if kind == Kind::Pq || e == End::Max { i32::MIN + 50 } else { i32::MAX - 50 };
            let (t, _) = timed(|| q.pop_if(e, |_, p| {
                p.v = far;
                false
            }));
            rec(&mut m.log_ops, "pop_if_reject_rewritten", t);
            m.ops += 3;
        }
    }
    // ---- bulk operations that re-establish order, on a fresh queue of the full size
    drop(q);
    let (_, mut q) = build(kind, pattern, n, &mut r);
    let len = q.len();
    let (t, _) = timed(|| q.retain(|_, _| true));
    m.bulk_ops.insert("retain_keep_all", (t, len));
    let (t, _) = timed(|| {
        both!(&mut q, qq => { for (_, p) in qq.iter_mut() { p.v = p.v.wrapping_mul(31).wrapping_add(7) % 1000; } })
    });
    m.bulk_ops.insert("iter_mut_rewrite_all_and_drop", (t, len));
    // adversarial rewrites: every priority negated, then ascending / descending in visiting order
    let (t, _) = timed(|| {
        both!(&mut q, qq => { for (_, p) in qq.iter_mut() { p.v = p.v.wrapping_neg(); } })
    });
    m.bulk_ops.insert("iter_mut_negate_all_and_drop", (t, len));
    let (t, _) = timed(|| {
        both!(&mut q, qq => { let mut c = 0; for (_, p) in qq.iter_mut() { p.v = c; c += 1; } })
    });
    m.bulk_ops.insert("iter_mut_ascending_and_drop", (t, len));
    let (t, _) = timed(|| {
        both!(&mut q, qq => { let mut c = 0; for (_, p) in qq.iter_mut() { p.v = c; c -= 1; } })
    });
    m.bulk_ops.insert("iter_mut_descending_and_drop", (t, len));
    let (t, _) = timed(|| {
        let mut c = 0;
        q.retain_mut(|_, p| {
            p.v = c;
            c += 1;
            true
        })
    });
    m.bulk_ops.insert("retain_mut_keep_all_ascending", (t, len));
    // rejections chosen by priority: the greatest half, then (on a fresh queue) the smallest half
    {
        let mut ps: Vec<i32> = q.contents().iter().map(|x| x.1).collect();
        ps.sort();
        let median = ps.get(ps.len() / 2).copied().unwrap_or(0);
        let (t, _) = timed(|| q.retain(|_, p| p.v < median));
        m.bulk_ops.insert("retain_rejecting_greatest_half", (t, len));
        drop(q);
        let (_, q2) = build(kind, pattern, n, &mut r);
        q = q2;
        let mut ps: Vec<i32> = q.contents().iter().map(|x| x.1).collect();
        ps.sort();
        let median = ps.get(ps.len() / 2).copied().unwrap_or(0);
        let l2 = q.len();
        let (t, _) = timed(|| q.retain(|_, p| p.v >= median));
        m.bulk_ops.insert("retain_rejecting_smallest_half", (t, l2));
        drop(q);
        let (_, q3) = build(kind, pattern, n, &mut r);
        q = q3;
    }
    let len = q.len();
    let (t, _) = timed(|| q.retain_mut(|k, p| {
        p.v = -p.v;
        k.id() % 2 == 0
    }));
    m.bulk_ops.insert("retain_mut_half", (t, len));
    let len = q.len();
    let (t, q2) = timed(|| q.convert());
    m.bulk_ops.insert("convert_kind", (t, len));
    let (t, q3) = timed(|| q2.convert());
    m.bulk_ops.insert("convert_back", (t, len));
    let mut q = q3;
    // append a queue of half the size with fresh items
    let half = len / 2;
    let ov: Vec<(Key, Prio)> = (0..half).map(|i| (Key::new(next_id + i as u32, 0), Prio::new(prio_of(pattern, i, half.max(1), &mut r)))).collect();
    let mut other = AnyQ::from_vec(kind, ov);
    next_id += half as u32;
    let (t, _) = timed(|| q.append(&mut other));
    m.bulk_ops.insert("append", (t, len + half));
    // lopsided appends: a tiny queue receiving a big one, and the reverse
    for tiny in [0usize, 1, 3, 7] {
        let big_n = n;
        let bv: Vec<(Key, Prio)> = (0..big_n).map(|i| (Key::new(next_id + i as u32, 0), Prio::new(prio_of(pattern, i, big_n.max(1), &mut r)))).collect();
        next_id += big_n as u32;
        let mut big = AnyQ::from_vec(kind, bv);
        let tv: Vec<(Key, Prio)> = (0..tiny).map(|i| (Key::new(next_id + i as u32, 0), Prio::new(r.range(-1000, 1000) as i32))).collect();
        next_id += tiny as u32;
        let mut small = AnyQ::from_vec(kind, tv);
        if tiny % 2 == 0 || tiny == 7 {
            let (t, _) = timed(|| small.append(&mut big));
            let e = m.bulk_ops.entry("append_big_into_tiny").or_insert((0, big_n + tiny));
            e.0 = e.0.max(t);
        } else {
            let (t, _) = timed(|| big.append(&mut small));
            let e = m.bulk_ops.entry("append_tiny_into_big").or_insert((0, big_n + tiny));
            e.0 = e.0.max(t);
        }
    }
    // extend by as many pairs as it holds (rebuild strategy) with an exact hint
    let len = q.len();
    let pairs: Vec<(Key, Prio)> = (0..len).map(|i| (Key::new(next_id + i as u32, 0), Prio::new(prio_of(pattern, i, len.max(1), &mut r)))).collect();
    let (t, _) = timed(|| q.extend(HintedSource::new(pairs, Hint::Exact)));
    m.bulk_ops.insert("extend_same_size", (t, 2 * len));
    let len = q.len();
    let v = q.into_pairs();
    let (t, q4) = timed(|| AnyQ::from_iter(kind, v));
    m.bulk_ops.insert("from_iter", (t, len));
    // ---- a whole drain by single extractions (ends chosen by the seed): every one of them is a
    // request with its own deadline, also the one that takes the length below a quarter or an
    // eighth of what the queue once held (where an implementation might decide to tidy up)
    // (up to 2^17 elements: a drain of a million elements would dominate the whole measurement)
    let mut q4 = q4;
    while !q4.is_empty() && n <= (1 << 17) {
        let e = if r.chance(1, 2) { End::Min } else { End::Max };
        let (t, _) = timed(|| q4.pop(e));
        rec(&mut m.log_ops, "pop_while_draining", t);
        m.ops += 1;
    }
    m
}

pub fn run_cx_case(b: &CxBody) -> (Option<FailRec>, BTreeMap<String, u64>) {
    let lo = 1usize << b.lo_log2;
    let hi = 1usize << b.hi_log2;
    let a = measure(b.kind, b.pattern, lo, b.seed);
    let z = measure(b.kind, b.pattern, hi, b.seed);
    let mut worst = BTreeMap::new();
    let f = |class: &str, msg: String| Some(FailRec { props: "C05".into(), class: class.into(), msg, step: 0 });
    let mut fail = None;
    for (mm, n) in [(&a, lo), (&z, hi)] {
        for (k, t) in &mm.zero_ops {
            let allowed = if k.starts_with("peek_max") { 1 } else { 0 };
            worst.insert(format!("{}@2^{}", k, ceil_log2(n) - 1), *t);
            if *t > allowed && fail.is_none() {
                fail = f("ticks_in_constant_op", format!("{} on {} elements ({:?}, {:?}) performed {} comparisons, allowed {}", k, n, b.kind, b.pattern, t, allowed));
            }
        }
        for (k, t) in &mm.log_ops {
            worst.insert(format!("{}@2^{}", k, ceil_log2(n) - 1), *t);
            if *t > log_bound(n + 64) && fail.is_none() {
                fail = f("log_op_over_deadline", format!("{} on ~{} elements ({:?}, {:?}) performed {} comparisons; deadline 12*ceil(log2(n+1))+16 = {}", k, n, b.kind, b.pattern, t, log_bound(n + 64)));
            }
        }
        for (k, (t, nn)) in &mm.bulk_ops {
            worst.insert(format!("{}@2^{}", k, ceil_log2(n) - 1), *t);
            if *t > lin_bound(*nn) && fail.is_none() {
                fail = f("bulk_op_over_deadline", format!("{} on {} elements ({:?}, {:?}) performed {} comparisons; deadline 10*n+16 = {}", k, nn, b.kind, b.pattern, t, lin_bound(*nn)));
            }
        }
    }
    // growth between the two sizes: an O(n) replacement of a logarithmic operation grows by
    // hi/lo, a logarithmic one by hi_log2/lo_log2
    if fail.is_none() {
        let ratio_allowed = (b.hi_log2 as u64 * 3 + b.lo_log2 as u64 - 1) / b.lo_log2.max(1) as u64; // ceil(3*hi/lo) / ... generous
        for (k, tz) in &z.log_ops {
            if let Some(ta) = a.log_ops.get(k) {
                let allowed = ratio_allowed.max(3) * ta + 16;
                if *tz > allowed {
                    fail = f("log_op_growth", format!("{}: worst {} comparisons at n=2^{} but {} at n=2^{} ({:?}, {:?}); allowed {}", k, ta, b.lo_log2, tz, b.hi_log2, b.kind, b.pattern, allowed));
                    break;
                }
            }
        }
    }
    if fail.is_none() {
        for (k, (tz, nz)) in &z.bulk_ops {
            if let Some((ta, na)) = a.bulk_ops.get(k) {
                // below ~2^8 elements the per-element cost has not converged yet (and extend may
                // still be on its other strategy): growth is judged from 2^8 upwards only
                if *na < 256 || *nz < 64 * *na {
                    continue;
                }
                let per_a = *ta as f64 / *na as f64;
                let per_z = *tz as f64 / *nz as f64;
                if per_z > 1.25 * per_a + 1.0 {
                    fail = f("bulk_op_growth", format!("{}: {:.2} comparisons per element at n={} but {:.2} at n={} ({:?}, {:?}): more than linear", k, per_a, na, per_z, nz, b.kind, b.pattern));
                    break;
                }
            }
        }
    }
    worst.insert("measured_ops".into(), a.ops + z.ops);
    (fail, worst)
}

pub struct CxEngine {
    pub quick_runs: u64,
    pub thorough_runs: u64,
}

impl Engine for CxEngine {
    fn prop(&self) -> &'static str {
        "C05"
    }
    fn info(&self) -> EngineInfo {
        EngineInfo {
            level: "exploration",
            unit: "measurement runs: one (kind, priority pattern, seed) measured at two sizes; every operation call is timed individually on the simulated clock (comparator ticks)",
            rule: "sizes 2^4..2^16 (quick) / ..2^20 (thorough) in pairs (lo, hi); patterns ascending, descending, constant, random, organ-pipe, few-values; per size ~12 rounds addressing elements at the root, the last leaf, random positions and the first/last position of every level, driven to both extremes, to equal and to random priorities. Deadlines: single-element operations 12*ceil(log2(n+1))+16 ticks and growth worst(hi) <= max(3, 3*hi_log2/lo_log2)*worst(lo)+16; peeks/lookups 0 ticks (peek_max 1); bulk 10*n+16 and ticks/n at hi <= 1.25*ticks/n at lo + 1.0 (judged when lo >= 2^8 and hi >= 64*lo). Non-trivial = every run (each measures > 400 operation calls); distinct = (kind, pattern, seed, sizes)".into(),
            real: REAL.to_vec(),
            stubbed: STUBBED.to_vec(),
            assumptions: vec!["only priority comparisons are counted: a slow-down that does not show in Ord::cmp calls is invisible here".into(), "constants are generous on purpose; the growth conditions carry the asymptotic claim".into(), "sampling, not proof".into()],
            fault_kinds: vec![],
            exhaustive_note: None,
        }
    }
    fn runs(&self, tier: Tier) -> u64 {
        match tier {
            Tier::Quick => self.quick_runs,
            Tier::Thorough => self.thorough_runs,
        }
    }
    fn run_one(&self, seed: u64, idx: u64, tier: Tier, acc: &mut Acc) {
        let mut r = Rng::new(mix(seed, idx) ^ 0xC05);
        let kind = if idx % 2 == 0 { Kind::Pq } else { Kind::Dpq };
        let pattern = [Pattern::Ascending, Pattern::Descending, Pattern::Constant, Pattern::Random, Pattern::OrganPipe, Pattern::FewValues][(idx / 2 % 6) as usize];
        let (lo, hi) = match tier {
            Tier::Quick => *r.pick(&[(4u32, 10u32), (6, 12), (8, 14), (8, 16), (8, 16), (5, 13)]),
            Tier::Thorough => *r.pick(&[(4u32, 12u32), (8, 16), (8, 16), (10, 18), (10, 20), (8, 17), (6, 14)]),
        };
        let body = CxBody { kind, pattern, seed: r.next(), lo_log2: lo, hi_log2: hi };
        let d = mix(mix(body.seed, idx), (lo as u64) << 8 | hi as u64);
        acc.counters.insert("last_digest".into(), d);
        if track_level() >= 2 {
            track_line(2, &format!("B {}", serde_json::to_string(&body).unwrap()));
        }
        let t0 = clock();
        let (fail, worst) = run_cx_case(&body);
        acc.runs += 1;
        acc.nontrivial_runs += 1;
        acc.digests.push(d);
        acc.ticks += clock() - t0;
        acc.steps += worst.get("measured_ops").copied().unwrap_or(0);
        for (k, v) in &worst {
            if k != "measured_ops" {
                let e = acc.maxima.entry(format!("{:?}|{}", kind, k)).or_insert(0);
                *e = (*e).max(*v);
            }
        }
        acc.bump("probes", &format!("pattern_{:?}", pattern), 1);
        acc.bump("probes", &format!("sizes_2^{}_2^{}", lo, hi), 1);
        if acc.samples.len() < 2 {
            let pick: BTreeMap<&String, &u64> = worst.iter().filter(|(k, _)| k.starts_with("pop@") || k.starts_with("push_new_max@") || k.starts_with("from_vec@") || k.starts_with("change_priority_to_min@")).collect();
            acc.samples.push(json!({"run": idx, "case": body, "worst_ticks": pick, "outcome": fail.as_ref().map_or("within all deadlines".to_string(), |f| f.msg.clone())}));
        }
        if let Some(f) = fail {
            acc.violations.push(Case { property: "C05".into(), seed, run: idx, body: serde_json::to_value(&body).unwrap(), fail: Some(f), minimised: false, original_steps: 0 });
        }
    }
    fn replay(&self, body: &serde_json::Value) -> Result<Option<FailRec>, String> {
        let b: CxBody = serde_json::from_value(body.clone()).map_err(|e| e.to_string())?;
        Ok(run_cx_case(&b).0)
    }
    fn shrink_candidates(&self, body: &serde_json::Value, _fail: &FailRec) -> Vec<serde_json::Value> {
        let b: CxBody = match serde_json::from_value(body.clone()) {
            Ok(b) => b,
            Err(_) => return Vec::new(),
        };
        let mut out = Vec::new();
        if b.hi_log2 > b.lo_log2 + 2 {
            out.push(CxBody { hi_log2: b.hi_log2 - 2, ..b.clone() });
        }
        if b.lo_log2 > 4 {
            out.push(CxBody { lo_log2: b.lo_log2 - 1, ..b.clone() });
        }
        out.into_iter().map(|c| serde_json::to_value(&c).unwrap()).collect()
    }
    fn abort_is_violation(&self, _body: &serde_json::Value, _class: &str) -> bool {
        false
    }
    fn size_of(&self, body: &serde_json::Value) -> usize {
        body.get("hi_log2").and_then(|x| x.as_u64()).unwrap_or(0) as usize * 100 + body.get("lo_log2").and_then(|x| x.as_u64()).unwrap_or(0) as usize
    }
}
