//! Auxiliary static probe (not a simulation): which of the crate's public types are `Send` /
//! `Sync` for which parameters. The crate contains hand-written `unsafe impl Send/Sync` for the
//! two `IterMut` types (they hold a raw pointer since the D9 repair); a wrong bound there lets
//! safe code move `&mut I` to another thread — undefined behaviour no single-threaded run can
//! exhibit. The probe evaluates, at compile time of this harness, whether each listed
//! instantiation implements the auto trait, and compares with what is sound for a type that
//! owns, lends (`&I`) or lends mutably (`&mut I`) its parameters. Reported under C04.

use priority_queue::core_iterators::{Drain, IntoIter, Iter};
use priority_queue::double_priority_queue::iterators::{IntoSortedIter as DSorted, IterMut as DIterMut};
use priority_queue::priority_queue::iterators::{IntoSortedIter as PSorted, IterMut as PIterMut};
use priority_queue::{DoublePriorityQueue, PriorityQueue};
use std::cell::Cell;
use std::collections::hash_map::RandomState;
use std::marker::PhantomData;
use std::rc::Rc;
use std::sync::MutexGuard;

struct SendProbe<T: ?Sized>(PhantomData<T>);
struct SyncProbe<T: ?Sized>(PhantomData<T>);
trait NotSend {
    fn yes(&self) -> bool {
        false
    }
}
trait NotSync {
    fn yes(&self) -> bool {
        false
    }
}
impl<T: ?Sized> NotSend for SendProbe<T> {}
impl<T: ?Sized> NotSync for SyncProbe<T> {}
// inherent methods win over trait methods when their bounds hold
impl<T: ?Sized + Send> SendProbe<T> {
    fn yes(&self) -> bool {
        true
    }
}
impl<T: ?Sized + Sync> SyncProbe<T> {
    fn yes(&self) -> bool {
        true
    }
}

macro_rules! is_send {
    ($t:ty) => {
        SendProbe::<$t>(PhantomData).yes()
    };
}
macro_rules! is_sync {
    ($t:ty) => {
        SyncProbe::<$t>(PhantomData).yes()
    };
}

/// neither Send nor Sync
type Local = Rc<u8>;
/// Sync but not Send (bound to the thread that locked)
type Pinned = MutexGuard<'static, u8>;
/// Send but not Sync
type Celled = Cell<u8>;
type H = RandomState;

/// (type, auto trait, expected, actual)
pub fn facts() -> Vec<(&'static str, &'static str, bool, bool)> {
    let mut v = Vec::new();
    macro_rules! fact {
        ($name:expr, $t:ty, $send:expr, $sync:expr) => {
            v.push(($name, "Send", $send, is_send!($t)));
            v.push(($name, "Sync", $sync, is_sync!($t)));
        };
    }
    // owning types: Send iff parameters Send, Sync iff parameters Sync
    fact!("PriorityQueue<u8, i32>", PriorityQueue<u8, i32, H>, true, true);
    fact!("PriorityQueue<Rc<u8>, i32>", PriorityQueue<Local, i32, H>, false, false);
    fact!("PriorityQueue<u8, Rc<u8>>", PriorityQueue<u8, Local, H>, false, false);
    fact!("PriorityQueue<MutexGuard<u8>, i32>", PriorityQueue<Pinned, i32, H>, false, true);
    fact!("PriorityQueue<Cell<u8>, i32>", PriorityQueue<Celled, i32, H>, true, false);
    fact!("DoublePriorityQueue<u8, i32>", DoublePriorityQueue<u8, i32, H>, true, true);
    fact!("DoublePriorityQueue<Rc<u8>, i32>", DoublePriorityQueue<Local, i32, H>, false, false);
    fact!("DoublePriorityQueue<MutexGuard<u8>, i32>", DoublePriorityQueue<Pinned, i32, H>, false, true);
    fact!("DoublePriorityQueue<Cell<u8>, i32>", DoublePriorityQueue<Celled, i32, H>, true, false);
    fact!("IntoIter<Rc<u8>, i32>", IntoIter<Local, i32>, false, false);
    fact!("IntoIter<u8, i32>", IntoIter<u8, i32>, true, true);
    fact!("priority_queue::IntoSortedIter<MutexGuard<u8>, i32>", PSorted<Pinned, i32, H>, false, true);
    fact!("double_priority_queue::IntoSortedIter<Cell<u8>, i32>", DSorted<Celled, i32, H>, true, false);
    fact!("Drain<Rc<u8>, i32>", Drain<'static, Local, i32>, false, false);
    fact!("Drain<u8, i32>", Drain<'static, u8, i32>, true, true);
    // lending &I: Send iff I: Sync, Sync iff I: Sync
    fact!("Iter<u8, i32>", Iter<'static, u8, i32>, true, true);
    fact!("Iter<Rc<u8>, i32>", Iter<'static, Local, i32>, false, false);
    fact!("Iter<Cell<u8>, i32>", Iter<'static, Celled, i32>, false, false);
    fact!("Iter<MutexGuard<u8>, i32>", Iter<'static, Pinned, i32>, true, true);
    // IterMut lends `&'a mut I` / `&'a mut P` that outlive it (they are bound to the borrow of the
    // queue, not of the iterator) and its Drop re-reads every priority: if the iterator could be
    // sent to another thread, that thread's drop would race with writes the sending thread makes
    // through references it kept (found by a bug-hunting sub-agent with Miri's data-race
    // detector). So it must never be Send, whatever the parameters; Sync is harmless (`&IterMut`
    // only exposes `len`/`size_hint`) and not required.
    fact!("priority_queue::IterMut<u8, i32>", PIterMut<'static, u8, i32, H>, false, true);
    fact!("priority_queue::IterMut<Rc<u8>, i32>", PIterMut<'static, Local, i32, H>, false, false);
    fact!("priority_queue::IterMut<MutexGuard<u8>, i32>", PIterMut<'static, Pinned, i32, H>, false, true);
    fact!("priority_queue::IterMut<Cell<u8>, i32>", PIterMut<'static, Celled, i32, H>, false, false);
    fact!("double_priority_queue::IterMut<u8, i32>", DIterMut<'static, u8, i32, H>, false, true);
    fact!("double_priority_queue::IterMut<Rc<u8>, i32>", DIterMut<'static, Local, i32, H>, false, false);
    fact!("double_priority_queue::IterMut<MutexGuard<u8>, i32>", DIterMut<'static, Pinned, i32, H>, false, true);
    fact!("double_priority_queue::IterMut<Cell<u8>, i32>", DIterMut<'static, Celled, i32, H>, false, false);
    v
}

/// (BuildHasherDefault<T> is Send + Sync whatever T is: it only holds PhantomData<fn() -> T>)
#[derive(Default)]
pub struct LocalHasher(Option<Local>, u64);
impl std::hash::Hasher for LocalHasher {
    fn finish(&self) -> u64 {
        self.1
    }
    fn write(&mut self, b: &[u8]) {
        for x in b {
            self.1 = self.1.wrapping_mul(31).wrapping_add(*x as u64);
        }
    }
}

/// Only the unsound direction is a failure: a type that claims an auto trait it must not have.
/// (A type that lacks one it could have is merely restrictive.)
pub fn mismatches() -> Vec<String> {
    facts().into_iter().filter(|f| f.3 && !f.2).map(|f| format!("{} is {} but must not be", f.0, f.1)).collect()
}

pub fn restrictive() -> Vec<String> {
    facts().into_iter().filter(|f| !f.3 && f.2).map(|f| format!("{} is not {} although that would be sound", f.0, f.1)).collect()
}
