//! The alphabet of a simulated history: explicit, self-contained, serialisable steps.
//! A replay file is a list of these; nothing in a step refers to the PRNG.

use crate::hashers::HasherKind;
use crate::queue::{Ctor, End, Kind};
use crate::rng::hash3;
use serde::{Deserialize, Serialize};

/// (item id, priority, item payload)
pub type P3 = (u32, i32, u32);

#[derive(Clone, Copy, Debug, PartialEq, Eq, Serialize, Deserialize)]
pub enum ItOp {
    Next,
    NextBack,
    Len,
    SizeHint,
    /// `nth(k)`
    Nth(usize),
    /// `nth_back(k)` (where the iterator is double ended; else `nth(k)`)
    NthBack(usize),
    /// consume the rest by internal iteration (`for_each`); ends the program
    RestForEach,
    /// `count()`; ends the program
    RestCount,
    /// `last()`; ends the program
    RestLast,
    /// `min()` / `max()` over the (item, priority) pairs that remain; ends the program
    RestMin,
    RestMax,
    /// `collect::<Vec<_>>()`; ends the program
    RestCollect,
    /// `rev().for_each(..)` (internal iteration from the back, `rfold`) where the iterator is
    /// double ended, else `for_each`; ends the program
    RestRevEach,
}

#[derive(Clone, Copy, Debug, PartialEq, Eq, Serialize, Deserialize)]
pub enum Via {
    Direct,
    /// `for (i, p) in &mut queue`
    RefMut,
    /// `.rev()` (where the iterator is double ended)
    Rev,
    /// `.take(k)`
    Take(usize),
}

#[derive(Clone, Copy, Debug, PartialEq, Eq, Serialize, Deserialize)]
pub enum GEnd {
    Drop,
    /// `mem::forget`: the guard's destructor never runs
    Forget,
}

/// A predicate / rewrite rule that is a function of the element only (never of visit order).
#[derive(Clone, Copy, Debug, PartialEq, Eq, Serialize, Deserialize)]
pub struct Rule {
    pub seed: u64,
    /// percentage of elements kept (retain) — ignored by iter_mut
    pub keep: u8,
    /// percentage of elements whose priority is rewritten
    pub rw: u8,
    /// a value some rewrites converge to (creates ties)
    pub tv: i32,
    /// percentage of elements whose payload is rewritten
    pub plw: u8,
}

impl Rule {
    pub fn keeps(&self, id: u32) -> bool {
        (hash3(self.seed, id as u64, 1) % 100) < self.keep as u64
    }
    pub fn rewrite(&self, id: u32, cur: i32) -> Option<i32> {
        let h = hash3(self.seed, id as u64, 2);
        if (h % 100) >= self.rw as u64 {
            return None;
        }
        Some(match (h >> 8) % 6 {
            0 => cur.saturating_add(1 + ((h >> 16) % 5) as i32),
            1 => cur.saturating_sub(1 + ((h >> 16) % 5) as i32),
            2 => self.tv,
            3 => i32::MAX,
            4 => i32::MIN,
            _ => cur,
        })
    }
    pub fn payload(&self, id: u32) -> Option<u32> {
        let h = hash3(self.seed, id as u64, 3);
        if (h % 100) >= self.plw as u64 {
            return None;
        }
        Some((h >> 20) as u32 | 0x8000_0000)
    }
}

/// What a simulated source reports through `size_hint`, relative to what it will really yield.
#[derive(Clone, Copy, Debug, PartialEq, Eq, Serialize, Deserialize)]
pub enum Hint {
    /// (rem, Some(rem))
    Exact,
    /// (0, None)
    ZeroNone,
    /// (0, Some(rem))
    ZeroUpper,
    /// (rem, None)
    LowNone,
    /// (rem - min(sub, rem), Some(rem + extra)) saturating at usize::MAX
    Loose { sub: usize, extra: usize },
}

impl Hint {
    pub fn report(&self, rem: usize) -> (usize, Option<usize>) {
        match *self {
            Hint::Exact => (rem, Some(rem)),
            Hint::ZeroNone => (0, None),
            Hint::ZeroUpper => (0, Some(rem)),
            Hint::LowNone => (rem, None),
            Hint::Loose { sub, extra } => (rem - sub.min(rem), Some(rem.saturating_add(extra))),
        }
    }
    pub fn name(&self) -> &'static str {
        match *self {
            Hint::Exact => "exact",
            Hint::ZeroNone => "zero_none",
            Hint::ZeroUpper => "zero_upper",
            Hint::LowNone => "low_none",
            Hint::Loose { extra, .. } => {
                if extra >= 1 << 32 {
                    "loose_huge"
                } else if extra >= 17 {
                    "loose_big"
                } else {
                    "loose_small"
                }
            }
        }
    }
}

#[derive(Clone, Copy, Debug, PartialEq, Eq, Serialize, Deserialize)]
pub enum ItKind {
    Iter,
    IntoIter,
    Drain,
    /// into_sorted_iter of the current kind
    Sorted,
}

#[derive(Clone, Copy, Debug, PartialEq, Eq, Serialize, Deserialize)]
pub enum Adaptor {
    Take(usize),
    Skip(usize),
    Zip,
    Peekable,
    Rev,
    Enumerate,
    TakeSkip(usize, usize),
    RevTake(usize),
    SkipRev(usize),
    EnumerateRev,
    StepBy(usize),
    Chain,
}

#[derive(Clone, Copy, Debug, PartialEq, Eq, Serialize, Deserialize)]
pub enum SortedKind {
    /// PQ into_sorted_vec / DPQ into_ascending_sorted_vec
    VecA,
    /// PQ into_sorted_iter collected / DPQ into_descending_sorted_vec
    VecB,
}

#[derive(Clone, Debug, PartialEq, Eq, Serialize, Deserialize)]
pub enum Step {
    Push { k: u32, p: i32, pl: u32 },
    PushInc { k: u32, p: i32, pl: u32 },
    PushDec { k: u32, p: i32, pl: u32 },
    /// b: look the item up through the borrowed form `&KeyId` instead of `&Key`
    Change { k: u32, p: i32, b: bool, pl: u32 },
    ChangeBy { k: u32, p: i32, b: bool, pl: u32 },
    Remove { k: u32, b: bool, pl: u32 },
    Pop { e: End },
    PopIf { e: End, acc: bool, rw: Option<i32>, pl: Option<u32> },
    Peek { e: End },
    PeekMut { e: End, pl: Option<u32> },
    Get { k: u32, b: bool },
    GetMut { k: u32, b: bool, pl: Option<u32> },
    Retain { rule: Rule, mutable: bool },
    /// late: also write a priority through a reference the iterator yielded AFTER the iterator
    /// itself is gone (only possible when a terminal operation consumed it)
    IterMut {
        prog: Vec<ItOp>,
        via: Via,
        end: GEnd,
        rule: Rule,
        #[serde(default)]
        late: bool,
    },
    Drain { prog: Vec<ItOp>, end: GEnd },
    Iter { which: ItKind, prog: Vec<ItOp> },
    Adapt { which: ItKind, ad: Adaptor },
    Clear,
    Shrink,
    Reserve { n: usize, exact: bool },
    /// fault: Some((k, persistent)) = the k-th allocation of the call fails
    TryReserve { n: usize, exact: bool, fault: Option<(u64, bool)> },
    Extend { pairs: Vec<P3>, hint: Hint },
    Append { pairs: Vec<P3>, via_vec: bool },
    FromVec { extra: Vec<P3> },
    FromIter { extra: Vec<P3>, hint: Hint },
    Convert,
    CloneSwap,
    /// an existing queue built from `dst` receives `clone_from(&queue)` and replaces it
    CloneFrom { dst: Vec<P3> },
    Serde { switch: bool },
    EqSelf,
    Sorted { which: SortedKind },
    SortedEp { prog: Vec<ItOp> },
    IntoVec,
}

impl Step {
    pub fn fam(&self) -> Fam {
        match self {
            Step::Push { .. } => Fam::Push,
            Step::PushInc { .. } => Fam::PushInc,
            Step::PushDec { .. } => Fam::PushDec,
            Step::Change { .. } => Fam::Change,
            Step::ChangeBy { .. } => Fam::ChangeBy,
            Step::Remove { .. } => Fam::Remove,
            Step::Pop { .. } => Fam::Pop,
            Step::PopIf { .. } => Fam::PopIf,
            Step::Peek { .. } => Fam::Peek,
            Step::PeekMut { .. } => Fam::PeekMut,
            Step::Get { .. } => Fam::Get,
            Step::GetMut { .. } => Fam::GetMut,
            Step::Retain { .. } => Fam::Retain,
            Step::IterMut { end: GEnd::Drop, .. } => Fam::IterMut,
            Step::IterMut { end: GEnd::Forget, .. } => Fam::IterMutLeak,
            Step::Drain { end: GEnd::Drop, .. } => Fam::Drain,
            Step::Drain { end: GEnd::Forget, .. } => Fam::DrainLeak,
            Step::Iter { .. } => Fam::Iter,
            Step::Adapt { .. } => Fam::Adapt,
            Step::Clear => Fam::Clear,
            Step::Shrink => Fam::Shrink,
            Step::Reserve { .. } => Fam::Reserve,
            Step::TryReserve { .. } => Fam::TryReserve,
            Step::Extend { .. } => Fam::Extend,
            Step::Append { .. } => Fam::Append,
            Step::FromVec { .. } => Fam::FromVec,
            Step::FromIter { .. } => Fam::FromIter,
            Step::Convert => Fam::Convert,
            Step::CloneSwap => Fam::CloneSwap,
            Step::CloneFrom { .. } => Fam::CloneFrom,
            Step::Serde { .. } => Fam::Serde,
            Step::EqSelf => Fam::EqSelf,
            Step::Sorted { .. } => Fam::Sorted,
            Step::SortedEp { .. } => Fam::SortedEp,
            Step::IntoVec => Fam::IntoVec,
        }
    }
}

#[derive(Clone, Copy, Debug, PartialEq, Eq, PartialOrd, Ord, Hash, Serialize, Deserialize)]
#[repr(usize)]
pub enum Fam {
    Push = 0,
    PushInc,
    PushDec,
    Change,
    ChangeBy,
    Remove,
    Pop,
    PopIf,
    Peek,
    PeekMut,
    Get,
    GetMut,
    Retain,
    IterMut,
    IterMutLeak,
    Drain,
    DrainLeak,
    Iter,
    Adapt,
    Clear,
    Shrink,
    Reserve,
    TryReserve,
    Extend,
    Append,
    FromVec,
    FromIter,
    Convert,
    CloneSwap,
    Serde,
    EqSelf,
    Sorted,
    SortedEp,
    IntoVec,
    CloneFrom,
}
pub const N_FAM: usize = 35;
pub const ALL_FAM: [Fam; N_FAM] = [
    Fam::Push,
    Fam::PushInc,
    Fam::PushDec,
    Fam::Change,
    Fam::ChangeBy,
    Fam::Remove,
    Fam::Pop,
    Fam::PopIf,
    Fam::Peek,
    Fam::PeekMut,
    Fam::Get,
    Fam::GetMut,
    Fam::Retain,
    Fam::IterMut,
    Fam::IterMutLeak,
    Fam::Drain,
    Fam::DrainLeak,
    Fam::Iter,
    Fam::Adapt,
    Fam::Clear,
    Fam::Shrink,
    Fam::Reserve,
    Fam::TryReserve,
    Fam::Extend,
    Fam::Append,
    Fam::FromVec,
    Fam::FromIter,
    Fam::Convert,
    Fam::CloneSwap,
    Fam::Serde,
    Fam::EqSelf,
    Fam::Sorted,
    Fam::SortedEp,
    Fam::IntoVec,
    Fam::CloneFrom,
];

impl Fam {
    pub fn name(self) -> &'static str {
        match self {
            Fam::Push => "push",
            Fam::PushInc => "push_increase",
            Fam::PushDec => "push_decrease",
            Fam::Change => "change_priority",
            Fam::ChangeBy => "change_priority_by",
            Fam::Remove => "remove",
            Fam::Pop => "pop",
            Fam::PopIf => "pop_if",
            Fam::Peek => "peek",
            Fam::PeekMut => "peek_mut",
            Fam::Get => "get",
            Fam::GetMut => "get_mut",
            Fam::Retain => "retain",
            Fam::IterMut => "iter_mut",
            Fam::IterMutLeak => "iter_mut_leak",
            Fam::Drain => "drain",
            Fam::DrainLeak => "drain_leak",
            Fam::Iter => "iter_episode",
            Fam::Adapt => "adaptor",
            Fam::Clear => "clear",
            Fam::Shrink => "shrink_to_fit",
            Fam::Reserve => "reserve",
            Fam::TryReserve => "try_reserve",
            Fam::Extend => "extend",
            Fam::Append => "append",
            Fam::FromVec => "from_vec",
            Fam::FromIter => "from_iter",
            Fam::Convert => "convert",
            Fam::CloneSwap => "clone",
            Fam::Serde => "serde",
            Fam::EqSelf => "eq",
            Fam::Sorted => "sorted_vec",
            Fam::SortedEp => "sorted_iter_episode",
            Fam::IntoVec => "into_vec",
            Fam::CloneFrom => "clone_from",
        }
    }
}

#[derive(Clone, Copy, Debug, PartialEq, Eq, Serialize, Deserialize)]
pub enum Palette {
    /// every priority is this value: all ties
    Const(i32),
    /// 0..n
    Small(i32),
    /// all of i32 with MIN / MAX forced in
    Full,
}

#[derive(Clone, Debug, PartialEq, Eq, Serialize, Deserialize)]
pub struct RunCfg {
    pub kind: Kind,
    pub hasher: HasherKind,
    pub ctor: Ctor,
    pub universe: u32,
    pub palette: Palette,
    pub len: usize,
    /// weight per step family (index = Fam as usize)
    pub weights: Vec<u32>,
}
