//! pqsim — deterministic simulation with fault injection for the `priority-queue` crate.
//!
//!   pqsim check <Cxx> <quick|thorough>     orchestrator (spawns worker processes)
//!   pqsim replay <file>                     re-execute a replay file in a fresh process
//!   pqsim worker|replay-inner|shrink ...    internal

mod alloc;
mod autotrait;
mod complexity;
mod crash;
mod diffhint;
mod serdefault;
mod engines;
mod exec;
mod hashers;
mod hist;
mod model;
mod orch;
mod plain;
mod queue;
mod rng;
mod sources;
mod stdctor;
mod steps;
mod twin;
mod types;

#[global_allocator]
static GLOBAL: alloc::FaultAlloc = alloc::FaultAlloc;

fn main() {
    types::install_panic_hook();
    let args: Vec<String> = std::env::args().skip(1).collect();
    let code = match args.first().map(|s| s.as_str()) {
        Some("check") if args.len() >= 3 => match engines::engine_of(&args[1]) {
            Some(e) => orch::check_main(e.as_ref(), orch::Tier::parse(&args[2])),
            None => {
                eprintln!("no check for property {}", args[1]);
                2
            }
        },
        Some("worker") if args.len() >= 6 => match engines::engine_of(&args[1]) {
            Some(e) => orch::worker_main(e.as_ref(), &args[1..]),
            None => 2,
        },
        // single-process batch for Miri: miri <prop> <seed> <start> <count>
        Some("miri") if args.len() >= 5 => match engines::engine_of(&args[1]) {
            Some(e) => {
                let seed: u64 = args[2].parse().unwrap_or(1);
                let start: u64 = args[3].parse().unwrap_or(0);
                let count: u64 = args[4].parse().unwrap_or(1);
                types::LIGHT.store(true, std::sync::atomic::Ordering::Relaxed);
                let mut acc = orch::Acc::default();
                let mut code = 0;
                for idx in start..start + count {
                    println!("R {}", idx);
                    e.run_one(seed, idx, orch::Tier::Quick, &mut acc);
                    if let Some(v) = acc.violations.first() {
                        println!("NATIVE-VIOLATION {}", serde_json::to_string(v).unwrap());
                        code = 1;
                        break;
                    }
                }
                println!("MIRI-BATCH-DONE runs={} cases={} steps={}", count, acc.runs, acc.steps);
                code
            }
            None => 2,
        },
        // One fixed scenario of the recorded defect D8 for Miri: safe code uses a reference that
        // iter_mut yielded after the iterator (whose Drop re-reads every entry) is gone.
        // 0/1: PriorityQueue / DoublePriorityQueue, write to a part of the ITEM that Eq/Hash ignore
        // (the heap stays ordered; only the access itself is undefined); 2/3: write the priority.
        Some("miri-late") if args.len() >= 2 => {
            let sc: u32 = args[1].parse().unwrap_or(0);
            types::LIGHT.store(true, std::sync::atomic::Ordering::Relaxed);
            hashers::set_current(hashers::HasherKind::Seeded(1, 2));
            let mut q = queue::construct(if sc % 2 == 0 { queue::Kind::Pq } else { queue::Kind::Dpq }, queue::Ctor::WithHasher);
            for k in 0..4u32 {
                q.push(types::Key::new(k, 0), types::Prio::new(k as i32));
            }
            println!("L {} start", sc);
            if sc >= 4 {
                // 4/5: no use after the iterator is gone at all — `reduce` keeps a yielded pair as
                // its accumulator (a by-value argument of `fold`), the closure writes through it,
                // and the iterator is dropped at the end of `fold` while that argument is live
                let sum = match &mut q {
                    queue::AnyQ::Pq(x) => x.iter_mut().reduce(|a, b| {
                        a.1.v += b.1.v;
                        a
                    }).map(|a| a.1.v),
                    queue::AnyQ::Dpq(x) => x.iter_mut().reduce(|a, b| {
                        a.1.v += b.1.v;
                        a
                    }).map(|a| a.1.v),
                };
                println!("L {} done sum={:?}", sc, sum);
                std::process::exit(0);
            }
            match &mut q {
                queue::AnyQ::Pq(x) => {
                    let mut it = x.iter_mut();
                    let (item, prio) = it.next().unwrap();
                    // used while the iterator is alive (fine) …
                    item.payload = 6;
                    prio.v += 0;
                    drop(it); // … the rebuild in Drop reads every entry …
                    if sc < 2 {
                        item.payload = 7; // … and this use comes after it
                    } else {
                        prio.v = 100;
                    }
                }
                queue::AnyQ::Dpq(x) => {
                    let mut it = x.iter_mut();
                    let (item, prio) = it.next().unwrap();
                    item.payload = 6;
                    prio.v += 0;
                    drop(it);
                    if sc < 2 {
                        item.payload = 7;
                    } else {
                        prio.v = 100;
                    }
                }
            }
            let top = q.peek(queue::End::Max);
            println!("L {} done peek={:?}", sc, top);
            0
        }
        // auxiliary static probe: Send / Sync of the public types (see autotrait.rs)
        Some("autotraits") => {
            let facts = autotrait::facts();
            let bad = autotrait::mismatches();
            println!("AUTOTRAITS facts={} mismatches={}", facts.len(), bad.len());
            for m in &bad {
                println!("MISMATCH {}", m);
            }
            for m in autotrait::restrictive() {
                println!("NOTE {}", m);
            }
            if bad.is_empty() {
                0
            } else {
                1
            }
        }
        Some("amplify") if args.len() >= 2 => hist::amplify_main(&args[1]),
        Some("selftest") => orch::selftest_determinism(&|p| engines::engine_of(p), args.get(2).and_then(|s| s.parse().ok()).unwrap_or(1200)),
        Some("replay") if args.len() >= 2 => orch::replay_main(&|p| engines::engine_of(p), &args[1]),
        Some("replay-inner") if args.len() >= 2 => {
            let case: Option<orch::Case> = std::fs::read_to_string(&args[1]).ok().and_then(|s| serde_json::from_str(&s).ok());
            match case.and_then(|c| engines::engine_of(&c.property).map(|e| (c, e))) {
                Some((c, e)) => orch::replay_inner_main(e.as_ref(), &c),
                None => 2,
            }
        }
        Some("shrink") if args.len() >= 2 => {
            let case: Option<orch::Case> = std::fs::read_to_string(&args[1]).ok().and_then(|s| serde_json::from_str(&s).ok());
            match case.and_then(|c| engines::engine_of(&c.property)) {
                Some(e) => orch::shrink_main(e.as_ref(), &args[1]),
                None => 2,
            }
        }
        _ => {
            eprintln!("usage: pqsim check <Cxx> <quick|thorough> | replay <file>");
            2
        }
    };
    std::process::exit(code);
}
