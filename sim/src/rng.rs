//! The only source of randomness in the simulator: splitmix64 seeding xoshiro256**.
//! Every choice of a run is drawn from one `Rng` created from `mix(VERIF_SEED, run_index)`.

#[derive(Clone, Debug)]
pub struct Rng {
    s: [u64; 4],
}

pub fn splitmix(x: &mut u64) -> u64 {
    *x = x.wrapping_add(0x9E37_79B9_7F4A_7C15);
    let mut z = *x;
    z = (z ^ (z >> 30)).wrapping_mul(0xBF58_476D_1CE4_E5B9);
    z = (z ^ (z >> 27)).wrapping_mul(0x94D0_49BB_1331_11EB);
    z ^ (z >> 31)
}

pub fn mix(a: u64, b: u64) -> u64 {
    let mut x = a ^ b.wrapping_mul(0xD6E8_FEB8_6659_FD93).rotate_left(23);
    let r = splitmix(&mut x);
    r ^ splitmix(&mut x)
}

impl Rng {
    pub fn new(seed: u64) -> Rng {
        let mut x = seed;
        Rng {
            s: [splitmix(&mut x), splitmix(&mut x), splitmix(&mut x), splitmix(&mut x)],
        }
    }
    pub fn next(&mut self) -> u64 {
        let r = self.s[1].wrapping_mul(5).rotate_left(7).wrapping_mul(9);
        let t = self.s[1] << 17;
        self.s[2] ^= self.s[0];
        self.s[3] ^= self.s[1];
        self.s[1] ^= self.s[2];
        self.s[0] ^= self.s[3];
        self.s[2] ^= t;
        self.s[3] = self.s[3].rotate_left(45);
        r
    }
    /// uniform in 0..n (n > 0)
    pub fn below(&mut self, n: u64) -> u64 {
        debug_assert!(n > 0);
        ((self.next() as u128 * n as u128) >> 64) as u64
    }
    pub fn range(&mut self, lo: i64, hi_incl: i64) -> i64 {
        lo + self.below((hi_incl - lo + 1) as u64) as i64
    }
    pub fn usize(&mut self, n: usize) -> usize {
        self.below(n as u64) as usize
    }
    pub fn chance(&mut self, num: u64, den: u64) -> bool {
        self.below(den) < num
    }
    pub fn pick<'a, T>(&mut self, xs: &'a [T]) -> &'a T {
        &xs[self.usize(xs.len())]
    }
    /// index drawn according to integer weights (at least one weight > 0)
    pub fn weighted(&mut self, w: &[u32]) -> usize {
        let total: u64 = w.iter().map(|x| *x as u64).sum();
        let mut r = self.below(total.max(1));
        for (i, x) in w.iter().enumerate() {
            if r < *x as u64 {
                return i;
            }
            r -= *x as u64;
        }
        w.len() - 1
    }
    pub fn shuffle<T>(&mut self, xs: &mut [T]) {
        for i in (1..xs.len()).rev() {
            let j = self.usize(i + 1);
            xs.swap(i, j);
        }
    }
}

/// stateless hash of a few words, used for rule-based predicates (a function of the
/// element only, never of visiting order)
pub fn hash3(a: u64, b: u64, c: u64) -> u64 {
    mix(mix(a, b), c)
}
