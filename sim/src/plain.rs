//! C16 with other type combinations: items without drop glue and priorities that own something,
//! and the reverse. The main simulator's item type always needs drop, so a fast path selected by
//! `needs_drop::<I>()` / `needs_drop::<P>()` would never run there. Short histories of
//! push / pop / clear / drain (any consumption, dropped or forgotten) / retain / extend / clone on
//! `Queue<u32, Prio>` and `Queue<Key, i32>`, both kinds; the drop ledger must balance.

use crate::engines::{REAL, STUBBED};
use crate::hashers::DynState;
use crate::orch::*;
use crate::rng::{mix, Rng};
use crate::types::*;
use priority_queue::{DoublePriorityQueue, PriorityQueue};
use serde::{Deserialize, Serialize};
use serde_json::json;
use std::collections::BTreeMap;

#[derive(Clone, Copy, Debug, PartialEq, Eq, Serialize, Deserialize)]
pub enum POp {
    Push(u32, i32),
    PopMax,
    PopMin,
    Change(u32, i32),
    Remove(u32),
    Clear,
    /// drain: take n from the front, m from the back, then drop or forget the guard
    Drain(usize, usize, bool),
    Retain(u32),
    Extend(u32, u32),
    CloneAndDrop,
    IntoIterPartial(usize),
    Shrink,
}

#[derive(Clone, Debug, Serialize, Deserialize)]
pub struct PlainBody {
    /// 0: PQ<u32, Prio>, 1: DPQ<u32, Prio>, 2: PQ<Key, i32>, 3: DPQ<Key, i32>
    pub combo: u8,
    pub ops: Vec<POp>,
}

macro_rules! run_ops {
    ($q:ident, $ops:expr, $mk_i:expr, $mk_p:expr, $id_of:expr, $pv:expr, $dpq:tt, $model:ident, $leak:ident, $problem:ident) => {
        for (n, op) in $ops.iter().enumerate() {
            match *op {
                POp::Push(k, p) => {
                    $q.push($mk_i(k), $mk_p(p));
                    $model.insert(k, p);
                }
                POp::PopMax => {
                    #[allow(unused_mut)]
                    let mut r = None;
                    pop_max!($q, r, $dpq);
                    if let Some((i, _)) = r {
                        $model.remove(&$id_of(&i));
                    }
                }
                POp::PopMin => {
                    #[allow(unused_mut)]
                    let mut r = None;
                    pop_min!($q, r, $dpq);
                    if let Some((i, _)) = r {
                        $model.remove(&$id_of(&i));
                    }
                }
                POp::Change(k, p) => {
                    if $q.change_priority(&$mk_i(k), $mk_p(p)).is_some() {
                        $model.insert(k, p);
                    }
                }
                POp::Remove(k) => {
                    $q.remove(&$mk_i(k));
                    $model.remove(&k);
                }
                POp::Clear => {
                    $q.clear();
                    $model.clear();
                    if $q.len() != 0 || $q.iter().count() != 0 {
                        $problem = Some(("not_empty_after_clear", format!("op {}: after clear() len()={} iter().count()={}", n, $q.len(), $q.iter().count())));
                        break;
                    }
                }
                POp::Drain(a, b, forget) => {
                    let total = $q.len();
                    let mut d = $q.drain();
                    let mut taken = 0;
                    for _ in 0..a {
                        if d.next().is_some() {
                            taken += 1;
                        }
                    }
                    for _ in 0..b {
                        if d.next_back().is_some() {
                            taken += 1;
                        }
                    }
                    if forget {
                        $leak += (total - taken) as u64;
                        std::mem::forget(d);
                    } else {
                        drop(d);
                    }
                    $model.clear();
                    if $q.len() != 0 || $q.iter().count() != 0 {
                        $problem = Some(("not_empty_after_drain", format!("op {}: after drain() len()={} iter().count()={}", n, $q.len(), $q.iter().count())));
                        break;
                    }
                }
                POp::Retain(m) => {
                    let m = m.max(1);
                    $q.retain(|i, _| $id_of(i) % m != 0);
                    $model.retain(|k, _| k % m != 0);
                }
                POp::Extend(from, count) => {
                    let v: Vec<_> = (from..from + count).map(|k| ($mk_i(k), $mk_p(k as i32 % 7))).collect();
                    $q.extend(v);
                    for k in from..from + count {
                        $model.insert(k, k as i32 % 7);
                    }
                }
                POp::CloneAndDrop => {
                    let c = $q.clone();
                    drop(c);
                }
                POp::IntoIterPartial(k) => {
                    let c = $q.clone();
                    let mut it = c.into_iter();
                    for _ in 0..k {
                        it.next();
                    }
                    drop(it);
                }
                POp::Shrink => $q.shrink_to_fit(),
            }
            // contents against the model (a divergence is not this property's business)
            let mut got: Vec<(u32, i32)> = $q.iter().map(|(i, p)| ($id_of(i), $pv(p))).collect();
            got.sort();
            let want: Vec<(u32, i32)> = $model.iter().map(|(k, v)| (*k, *v)).collect();
            if got != want || $q.len() != want.len() {
                $problem = Some(("foreign_contents", format!("op {} ({:?}): contents {:?}, model {:?}", n, op, got, want)));
                break;
            }
        }
    };
}
macro_rules! pop_max {
    ($q:ident, $r:ident, true) => {
        $r = $q.pop_max();
    };
    ($q:ident, $r:ident, false) => {
        $r = $q.pop();
    };
}
macro_rules! pop_min {
    ($q:ident, $r:ident, true) => {
        $r = $q.pop_min();
    };
    ($q:ident, $r:ident, false) => {
        $r = $q.pop();
    };
}

pub fn run_plain_case(b: &PlainBody) -> Result<Option<FailRec>, String> {
    ledger_reset();
    crate::hashers::reset_instances();
    disarm_all();
    crate::hashers::set_current(crate::hashers::HasherKind::Seeded(3, 4));
    let mut model: BTreeMap<u32, i32> = BTreeMap::new();
    let mut leak = 0u64;
    let mut problem: Option<(&'static str, String)> = None;
    let r = guarded(|| match b.combo {
        0 => {
            let mut q: PriorityQueue<u32, Prio, DynState> = PriorityQueue::with_hasher(DynState::default());
            run_ops!(q, b.ops, |k: u32| k, |p: i32| Prio::new(p), |i: &u32| *i, |p: &Prio| p.v, false, model, leak, problem);
        }
        1 => {
            let mut q: DoublePriorityQueue<u32, Prio, DynState> = DoublePriorityQueue::with_hasher(DynState::default());
            run_ops!(q, b.ops, |k: u32| k, |p: i32| Prio::new(p), |i: &u32| *i, |p: &Prio| p.v, true, model, leak, problem);
        }
        2 => {
            let mut q: PriorityQueue<Key, i32, DynState> = PriorityQueue::with_hasher(DynState::default());
            run_ops!(q, b.ops, |k: u32| Key::new(k, 0), |p: i32| p, |i: &Key| i.id(), |p: &i32| *p, false, model, leak, problem);
        }
        _ => {
            let mut q: DoublePriorityQueue<Key, i32, DynState> = DoublePriorityQueue::with_hasher(DynState::default());
            run_ops!(q, b.ops, |k: u32| Key::new(k, 0), |p: i32| p, |i: &Key| i.id(), |p: &i32| *p, true, model, leak, problem);
        }
    });
    if let Err(e) = r {
        return Err(format!("panicked: {:?}", e));
    }
    if let Some((class, msg)) = problem {
        if class == "foreign_contents" {
            return Err(msg);
        }
        return Ok(Some(FailRec { props: "C16".into(), class: class.into(), msg, step: 0 }));
    }
    let (live, dd, _) = ledger_status();
    if dd > 0 {
        return Err(format!("{} values dropped twice (C04's business)", dd));
    }
    if live != leak {
        let what = if b.combo < 2 { "items are plain integers, priorities own a token" } else { "priorities are plain integers, items own a token" };
        return Ok(Some(FailRec { props: "C16".into(), class: "leak_plain_types".into(), msg: format!("{}: {} values still alive after the queue was dropped; drain guards forgotten by the harness account for {}", what, live, leak), step: 0 }));
    }
    Ok(None)
}

pub struct PlainEngine {
    pub quick_runs: u64,
    pub thorough_runs: u64,
}

impl Engine for PlainEngine {
    fn prop(&self) -> &'static str {
        "C16"
    }
    fn info(&self) -> EngineInfo {
        EngineInfo {
            level: "exploration",
            unit: "short histories on Queue<u32, Prio> and Queue<Key, i32> (items or priorities without drop glue), both kinds, with the drop ledger checked at the end",
            rule: "non-trivial = the history contains a clear or a drain on a queue of >= 2 elements; distinct = digest of the case".into(),
            real: REAL.to_vec(),
            stubbed: STUBBED.to_vec(),
            assumptions: vec!["a type-dependent fast path (needs_drop, Copy) can only be seen with the type combination that selects it; two more combinations are sampled, not all".into()],
            fault_kinds: vec!["guard leak (mem::forget of the drain guard)", "guard abandonment (drop after an arbitrary prefix)"],
            exhaustive_note: None,
        }
    }
    fn runs(&self, tier: Tier) -> u64 {
        match tier {
            Tier::Quick => self.quick_runs,
            Tier::Thorough => self.thorough_runs,
        }
    }
    fn run_one(&self, seed: u64, idx: u64, _tier: Tier, acc: &mut Acc) {
        let mut r = Rng::new(mix(seed, idx) ^ 0x91A1);
        let n = 3 + r.usize(14);
        let mut size = 0usize;
        let mut big = false;
        let ops: Vec<POp> = (0..n)
            .map(|_| {
                let k = r.below(12) as u32;
                let p = r.range(-3, 3) as i32;
                let op = match r.below(20) {
                    0..=7 => POp::Push(k, p),
                    8 => POp::PopMax,
                    9 => POp::PopMin,
                    10 => POp::Change(k, p),
                    11 => POp::Remove(k),
                    12 | 13 => POp::Clear,
                    14 | 15 => POp::Drain(r.usize(4), r.usize(3), r.chance(1, 2)),
                    16 => POp::Retain(2 + k % 3),
                    17 => POp::Extend(20 + k, 1 + r.below(40) as u32),
                    18 => POp::CloneAndDrop,
                    _ => POp::IntoIterPartial(r.usize(4)),
                };
                match op {
                    POp::Push(..) | POp::Extend(..) => size += 1,
                    POp::Clear | POp::Drain(..) => {
                        if size >= 2 {
                            big = true;
                        }
                        size = 0;
                    }
                    _ => {}
                }
                op
            })
            .collect();
        let body = PlainBody { combo: (idx % 4) as u8, ops };
        let text = serde_json::to_string(&body).unwrap();
        let d = text.bytes().fold(0xcbf2_9ce4_8422_2325u64, |h, b| (h ^ b as u64).wrapping_mul(0x100_0000_01b3));
        acc.counters.insert("last_digest".into(), d);
        if track_level() >= 2 {
            track_line(2, &format!("B {}", text));
        }
        acc.runs += 1;
        acc.steps += body.ops.len() as u64;
        match run_plain_case(&body) {
            Err(e) => {
                acc.abandoned += 1;
                if acc.abandoned_samples.len() < 3 {
                    acc.abandoned_samples.push(format!("run {}: {}", idx, e));
                }
            }
            Ok(f) => {
                acc.bump("probes", &format!("type_combination_{}", body.combo), 1);
                if big {
                    acc.nontrivial_runs += 1;
                    acc.digests.push(d);
                }
                if acc.samples.len() < 2 && big && body.ops.len() <= 8 {
                    acc.samples.push(json!({"run": idx, "case": body, "outcome": "ledger balanced"}));
                }
                if let Some(f) = f {
                    acc.violations.push(Case { property: "C16".into(), seed, run: idx, body: serde_json::to_value(&body).unwrap(), fail: Some(f), minimised: false, original_steps: 0 });
                }
            }
        }
    }
    fn replay(&self, body: &serde_json::Value) -> Result<Option<FailRec>, String> {
        let b: PlainBody = serde_json::from_value(body.clone()).map_err(|e| e.to_string())?;
        Ok(run_plain_case(&b).unwrap_or(None))
    }
    fn shrink_candidates(&self, body: &serde_json::Value, _fail: &FailRec) -> Vec<serde_json::Value> {
        let b: PlainBody = match serde_json::from_value(body.clone()) {
            Ok(b) => b,
            Err(_) => return Vec::new(),
        };
        let mut out = Vec::new();
        for i in 0..b.ops.len() {
            let mut c = b.clone();
            c.ops.remove(i);
            out.push(c);
        }
        out.into_iter().map(|c| serde_json::to_value(&c).unwrap()).collect()
    }
    fn abort_is_violation(&self, _body: &serde_json::Value, class: &str) -> bool {
        class.starts_with("abort_unsafe") || class.starts_with("abort_heap") || class.starts_with("abort_signal")
    }
    fn size_of(&self, body: &serde_json::Value) -> usize {
        body.get("ops").and_then(|s| s.as_array()).map_or(0, |a| a.len())
    }
}
