//! The S5 seam: hashers the queue can be instantiated with.
//!
//! `DynState` is one `BuildHasher` type whose behaviour is chosen at run time, so that the
//! whole simulator is compiled once. `Default` reads the thread-local configuration of the
//! current run (this is how `From<Vec>`, `FromIterator`, `default()`, `with_default_hasher()`
//! and deserialization obtain their hasher, exactly as they would obtain a `RandomState`).

use std::cell::Cell;
use std::collections::hash_map::{DefaultHasher, RandomState};
use std::hash::{BuildHasher, Hasher};

#[derive(Clone, Copy, Debug, PartialEq, Eq, serde::Serialize, serde::Deserialize)]
pub enum HasherKind {
    /// SipHash (std DefaultHasher) prefixed with two key words derived from the seed:
    /// the replayable stand-in for RandomState's random keys
    Seeded(u64, u64),
    /// multiplicative hasher of the kind used in no_std setups
    Mul,
    /// every item hashes to the same value
    Collide,
    /// the real thing: keys from the OS, deliberately uncontrolled (C18 only)
    Random,
    /// a hasher whose `BuildHasher::hash_one` is specialised and returns another value than
    /// build_hasher + hash + finish would (as ahash does): hashes computed by hand and hashes
    /// computed by the map then disagree
    Special,
}

thread_local! {
    static CURRENT: Cell<HasherKind> = const { Cell::new(HasherKind::Seeded(1, 2)) };
    /// number of hasher instances created since the configuration was set: like RandomState,
    /// every `Default::default()` of the seeded kind is keyed differently — but replayably
    static INSTANCES: Cell<u64> = const { Cell::new(0) };
}

pub fn set_current(k: HasherKind) {
    if CURRENT.with(|c| c.get()) != k {
        INSTANCES.with(|c| c.set(0));
    }
    CURRENT.with(|c| c.set(k))
}
/// start of a run: instance numbering restarts, so that a run does not depend on its predecessors
pub fn reset_instances() {
    // (called at the start of every run: also the place to clear per-run harness flags)
    crate::queue::NE_DISAGREES.with(|c| c.set(None));
    INSTANCES.with(|c| c.set(0));
}
pub fn current() -> HasherKind {
    CURRENT.with(|c| c.get())
}

#[derive(Clone)]
pub enum DynState {
    Seeded(u64, u64),
    Mul,
    Collide,
    Random(RandomState),
    Special,
}

impl DynState {
    pub fn of(k: HasherKind) -> DynState {
        match k {
            HasherKind::Seeded(a, b) => DynState::Seeded(a, b),
            HasherKind::Mul => DynState::Mul,
            HasherKind::Collide => DynState::Collide,
            HasherKind::Random => DynState::Random(RandomState::new()),
            HasherKind::Special => DynState::Special,
        }
    }
}

impl Default for DynState {
    fn default() -> Self {
        match current() {
            HasherKind::Seeded(a, b) => {
                let n = INSTANCES.with(|c| {
                    let n = c.get();
                    c.set(n + 1);
                    n
                });
                DynState::Seeded(a.wrapping_add(n.wrapping_mul(0x9E37_79B9_7F4A_7C15)), b ^ n)
            }
            k => DynState::of(k),
        }
    }
}

pub enum DynHasher {
    Sip(DefaultHasher),
    Mul(u64),
    Collide,
    Std(<RandomState as BuildHasher>::Hasher),
}

impl BuildHasher for DynState {
    type Hasher = DynHasher;
    fn build_hasher(&self) -> DynHasher {
        match self {
            DynState::Seeded(a, b) => {
                let mut h = DefaultHasher::new();
                h.write_u64(*a);
                h.write_u64(*b);
                DynHasher::Sip(h)
            }
            DynState::Mul => DynHasher::Mul(0),
            DynState::Collide => DynHasher::Collide,
            DynState::Random(r) => DynHasher::Std(r.build_hasher()),
            DynState::Special => DynHasher::Mul(0x5bec_1a11),
        }
    }
    fn hash_one<T: std::hash::Hash>(&self, x: T) -> u64 {
        let mut h = self.build_hasher();
        x.hash(&mut h);
        let v = h.finish();
        match self {
            // specialised: a different (but equally consistent) function of the value
            DynState::Special => v.rotate_left(17) ^ 0xA5A5_5A5A_DEAD_BEEF,
            _ => v,
        }
    }
}

impl Hasher for DynHasher {
    fn write(&mut self, bytes: &[u8]) {
        match self {
            DynHasher::Sip(h) => h.write(bytes),
            DynHasher::Mul(s) => {
                for b in bytes {
                    *s = (*s ^ *b as u64).wrapping_mul(0x9E37_79B9_7F4A_7C15).rotate_left(29);
                }
            }
            DynHasher::Collide => {}
            DynHasher::Std(h) => h.write(bytes),
        }
    }
    fn finish(&self) -> u64 {
        match self {
            DynHasher::Sip(h) => h.finish(),
            DynHasher::Mul(s) => s.wrapping_mul(0xD6E8_FEB8_6659_FD93),
            DynHasher::Collide => 0,
            DynHasher::Std(h) => h.finish(),
        }
    }
}
