//! The history engine: a seeded scheduler picks the next client step, every step is mirrored on
//! the reference model, oracles run after every step. Used (with different step profiles and
//! focus properties) by most checks; its fault-free configuration is the plain differential loop.

use crate::exec::*;
use crate::hashers::{self, HasherKind};
use crate::model::Model;
use crate::queue::*;
use crate::rng::{mix, Rng};
use crate::steps::*;
use crate::types::*;
use std::collections::BTreeMap;

// ------------------------------------------------------------------------------------------
// profiles

pub fn base_weights() -> Vec<u32> {
    let mut w = vec![0u32; N_FAM];
    let set = |w: &mut Vec<u32>, f: Fam, v: u32| w[f as usize] = v;
    set(&mut w, Fam::Push, 14);
    set(&mut w, Fam::PushInc, 4);
    set(&mut w, Fam::PushDec, 4);
    set(&mut w, Fam::Change, 10);
    set(&mut w, Fam::ChangeBy, 5);
    set(&mut w, Fam::Remove, 8);
    set(&mut w, Fam::Pop, 10);
    set(&mut w, Fam::PopIf, 5);
    set(&mut w, Fam::Peek, 2);
    set(&mut w, Fam::PeekMut, 2);
    set(&mut w, Fam::Get, 1);
    set(&mut w, Fam::GetMut, 2);
    set(&mut w, Fam::Retain, 3);
    set(&mut w, Fam::IterMut, 3);
    set(&mut w, Fam::IterMutLeak, 0);
    set(&mut w, Fam::Drain, 2);
    set(&mut w, Fam::DrainLeak, 1);
    set(&mut w, Fam::Iter, 1);
    set(&mut w, Fam::Adapt, 1);
    set(&mut w, Fam::Clear, 1);
    set(&mut w, Fam::Shrink, 1);
    set(&mut w, Fam::Reserve, 1);
    set(&mut w, Fam::TryReserve, 1);
    set(&mut w, Fam::Extend, 4);
    set(&mut w, Fam::Append, 2);
    set(&mut w, Fam::FromVec, 1);
    set(&mut w, Fam::FromIter, 1);
    set(&mut w, Fam::Convert, 2);
    set(&mut w, Fam::CloneSwap, 1);
    set(&mut w, Fam::Serde, 1);
    set(&mut w, Fam::EqSelf, 1);
    set(&mut w, Fam::Sorted, 1);
    set(&mut w, Fam::SortedEp, 1);
    set(&mut w, Fam::IntoVec, 1);
    set(&mut w, Fam::CloneFrom, 1);
    w
}

/// Step weights for a history run focused on one property.
pub fn profile(prop: u32) -> Vec<u32> {
    let mut w = base_weights();
    let mut bump = |f: Fam, v: u32| w[f as usize] = v;
    match prop {
        x if x == C01 || x == C02 => {}
        x if x == C03 => {
            bump(Fam::IterMutLeak, 1);
            bump(Fam::Remove, 14);
            bump(Fam::Get, 3);
            bump(Fam::IntoVec, 2);
        }
        x if x == C04 => {
            bump(Fam::IterMutLeak, 3);
            bump(Fam::DrainLeak, 2);
            bump(Fam::TryReserve, 2);
            bump(Fam::Remove, 12);
        }
        x if x == C06 => {
            bump(Fam::Sorted, 10);
            bump(Fam::SortedEp, 20);
        }
        x if x == C07 => {
            // (a leaked iter_mut guard leaves the order unspecified: the bulk constructors and
            // conversions that follow must still return "a correctly ordered queue")
            bump(Fam::IterMutLeak, 2);
            bump(Fam::Extend, 20);
            bump(Fam::Append, 12);
            bump(Fam::FromVec, 6);
            bump(Fam::FromIter, 8);
            bump(Fam::Convert, 6);
        }
        x if x == C08 => {
            bump(Fam::Retain, 14);
            bump(Fam::IterMut, 14);
            bump(Fam::PopIf, 14);
        }
        x if x == C09 => {
            bump(Fam::IterMut, 40);
        }
        x if x == C11 => {
            bump(Fam::PushInc, 25);
            bump(Fam::PushDec, 25);
        }
        x if x == C12 => {
            bump(Fam::IterMutLeak, 1);
            bump(Fam::GetMut, 8);
            bump(Fam::PeekMut, 8);
            bump(Fam::Get, 4);
            bump(Fam::PushInc, 8);
            bump(Fam::PushDec, 8);
            bump(Fam::ChangeBy, 10);
        }
        x if x == C13 => {
            bump(Fam::Iter, 25);
            bump(Fam::Adapt, 25);
            bump(Fam::IntoVec, 4);
            bump(Fam::Drain, 5);
        }
        x if x == C14 => {
            bump(Fam::CloneSwap, 8);
            bump(Fam::CloneFrom, 8);
            bump(Fam::EqSelf, 12);
        }
        x if x == C15 => {
            bump(Fam::Serde, 25);
        }
        x if x == C16 => {
            bump(Fam::Drain, 14);
            bump(Fam::DrainLeak, 10);
            bump(Fam::Clear, 8);
        }
        x if x == C17 => {
            bump(Fam::Reserve, 8);
            bump(Fam::TryReserve, 10);
            bump(Fam::Shrink, 8);
        }
        _ => {}
    }
    w
}

/// Families whose presence makes a run count as non-trivial for a property.
fn key_fams(prop: u32) -> Vec<Fam> {
    match prop {
        x if x == C01 || x == C02 => vec![Fam::Pop, Fam::PopIf, Fam::Remove, Fam::Change, Fam::ChangeBy, Fam::PushInc, Fam::PushDec, Fam::Retain, Fam::IterMut],
        x if x == C06 => vec![Fam::Sorted, Fam::SortedEp],
        x if x == C07 => vec![Fam::Extend, Fam::Append, Fam::FromVec, Fam::FromIter, Fam::Convert],
        x if x == C08 => vec![Fam::Retain, Fam::IterMut, Fam::PopIf],
        x if x == C09 => vec![Fam::IterMut],
        x if x == C11 => vec![Fam::PushInc, Fam::PushDec],
        x if x == C12 => vec![Fam::Push, Fam::PushInc, Fam::PushDec, Fam::Change, Fam::ChangeBy, Fam::GetMut, Fam::PeekMut],
        x if x == C13 => vec![Fam::Iter, Fam::Adapt, Fam::IntoVec, Fam::Drain],
        x if x == C14 => vec![Fam::CloneSwap, Fam::EqSelf, Fam::CloneFrom],
        x if x == C15 => vec![Fam::Serde],
        x if x == C16 => vec![Fam::Drain, Fam::DrainLeak, Fam::Clear],
        x if x == C17 => vec![Fam::Reserve, Fam::TryReserve, Fam::Shrink],
        _ => vec![Fam::Push, Fam::Remove, Fam::Pop, Fam::Change, Fam::Extend, Fam::Retain, Fam::Append],
    }
}

pub fn nontrivial_rule(prop: u32) -> String {
    let f: Vec<&str> = key_fams(prop).iter().map(|f| f.name()).collect();
    format!("a run (one seeded history on one queue) is non-trivial if it executed at least one step of {{{}}} on a queue that held >= 3 elements at some point; distinct = distinct digest of (configuration, step list, every returned value)", f.join(", "))
}

// ------------------------------------------------------------------------------------------
// configuration and step generation

pub fn gen_cfg(rng: &mut Rng, prop: u32, kind_fixed: Option<Kind>) -> RunCfg {
    let kind = kind_fixed.unwrap_or(if rng.chance(1, 2) { Kind::Pq } else { Kind::Dpq });
    let hasher = match rng.below(12) {
        0 => HasherKind::Mul,
        1 => HasherKind::Collide,
        2 => HasherKind::Special,
        _ => HasherKind::Seeded(rng.next(), rng.next()),
    };
    let ctor = match rng.below(10) {
        0 => Ctor::WithCapacityAndHasher(rng.usize(40)),
        1 => Ctor::Default,
        2 => Ctor::WithDefaultHasher,
        3 => Ctor::WithCapacityAndDefaultHasher(rng.usize(40)),
        4 => Ctor::FromEmptyVec,
        5 => Ctor::FromEmptyIter,
        6 => Ctor::FromOtherKind,
        _ => Ctor::WithHasher,
    };
    let universe = match rng.below(20) {
        0..=3 => 2 + rng.below(4) as u32,
        4..=11 => 6 + rng.below(12) as u32,
        12..=17 => 18 + rng.below(46) as u32,
        18 => 64 + rng.below(100) as u32,
        _ => 100 + rng.below(200) as u32,
    };
    let universe = if hasher == HasherKind::Collide { universe.min(64) } else { universe };
    let palette = match rng.below(10) {
        0 => Palette::Const(rng.range(-2, 2) as i32),
        1..=2 => Palette::Small(3),
        3..=5 => Palette::Small(10),
        6..=7 => Palette::Small(1000),
        _ => Palette::Full,
    };
    let len = match rng.below(20) {
        0..=11 => 3 + rng.usize(10),
        12..=16 => 12 + rng.usize(30),
        17..=18 => 40 + rng.usize(60),
        _ => 100 + rng.usize(100),
    };
    // swarm: switch random families off, keep the focus families and a producer on
    let mut weights = profile(prop);
    let keep: Vec<Fam> = key_fams(prop);
    for f in ALL_FAM {
        if f == Fam::Push || keep.contains(&f) {
            continue;
        }
        if rng.chance(3, 10) {
            weights[f as usize] = 0;
        }
    }
    // some runs are growth-heavy so that large sizes are reached
    if rng.chance(1, 4) {
        weights[Fam::Push as usize] *= 4;
        weights[Fam::Extend as usize] *= 2;
    }
    let (universe, len) = if light() { (universe.min(8), len.min(7)) } else { (universe, len) };
    // thorough tier: one run in 25 is an order of magnitude longer on a larger universe
    let (universe, len) = if thorough() && !light() && hasher != HasherKind::Collide && rng.chance(1, 25) { (universe.max(200 + rng.below(1300) as u32), 200 + rng.usize(500)) } else { (universe, len) };
    // big regime: thousands of elements, loaded in bulk by the first step, so that code which
    // switches strategy at some size (64, 512, 1024 …) is exercised on both sides of it
    let (universe, len) = if !light() && hasher != HasherKind::Collide && rng.chance(1, if thorough() { 2000 } else { 800 }) {
        let u = match rng.below(4) {
            0 => *rng.pick(&[511u32, 512, 513, 1023, 1024, 1025, 2047, 2048, 2049, 4095, 4096, 4097]),
            1 => 500 + rng.below(600) as u32,
            _ => 500 + rng.below(5500) as u32,
        };
        (u, 10 + rng.usize(24))
    } else {
        (universe, len)
    };
    RunCfg { kind, hasher, ctor, universe, palette, len, weights }
}

pub const BIG: u32 = 500;

pub struct Gen {
    pub rng: Rng,
    pub payload_ctr: u32,
    pub huge_hints: bool,
    pub alloc_faults: bool,
    pub late_writes: bool,
}

impl Gen {
    pub fn new(rng: Rng) -> Gen {
        Gen { rng, payload_ctr: 1, huge_hints: false, alloc_faults: false, late_writes: false }
    }
    fn fresh_payload(&mut self) -> u32 {
        self.payload_ctr += 1;
        self.payload_ctr
    }
    pub fn key(&mut self, m: &Model, cfg: &RunCfg, present_pct: u64) -> u32 {
        if !m.is_empty() && self.rng.chance(present_pct, 100) {
            let i = self.rng.usize(m.len());
            *m.m.keys().nth(i).unwrap()
        } else {
            self.rng.below(cfg.universe as u64 + 1) as u32
        }
    }
    pub fn prio(&mut self, cfg: &RunCfg, cur: Option<i32>, m: &Model) -> i32 {
        let r = &mut self.rng;
        match cfg.palette {
            Palette::Const(v) => v,
            Palette::Small(n) => match (cur, r.below(8)) {
                (Some(c0), 0) => c0,
                (Some(c0), 1) => c0.saturating_add(1),
                (Some(c0), 2) => c0.saturating_sub(1),
                (_, 3) => m.max().map_or(0, |x| x.saturating_add(1)),
                (_, 4) => m.min().map_or(0, |x| x.saturating_sub(1)),
                _ => r.below(n as u64) as i32,
            },
            Palette::Full => match (cur, r.below(12)) {
                (_, 0) => i32::MAX,
                (_, 1) => i32::MIN,
                (Some(c0), 2) => c0,
                (Some(c0), 3) => c0.saturating_add(1),
                (Some(c0), 4) => c0.saturating_sub(1),
                (_, 5) => m.max().map_or(0, |x| x.saturating_add(1)),
                (_, 6) => m.min().map_or(0, |x| x.saturating_sub(1)),
                (_, 7) => r.range(-5, 5) as i32,
                _ => r.next() as i32,
            },
        }
    }
    pub fn prog(&mut self, n: usize, back_ok: bool) -> Vec<ItOp> {
        let r = &mut self.rng;
        let style = r.below(10);
        let len = match style {
            0 => 0,
            1..=3 => n + 1 + r.usize(3), // runs past exhaustion
            _ => r.usize(n + 3),
        };
        let back_w = if !back_ok {
            0
        } else {
            match r.below(4) {
                0 => 0,
                1 => 50,
                2 => 100,
                _ => 25,
            }
        };
        let mut v: Vec<ItOp> = (0..len)
            .map(|_| {
                let x = r.below(100);
                if x < 10 {
                    ItOp::Len
                } else if x < 20 {
                    ItOp::SizeHint
                } else if x < 30 {
                    let k = match r.below(16) {
                        0..=3 => 0,
                        4..=7 => 1,
                        8..=11 => r.usize(4),
                        12 => usize::MAX,
                        _ => r.usize(n + 2),
                    };
                    if r.below(100) < back_w {
                        ItOp::NthBack(k)
                    } else {
                        ItOp::Nth(k)
                    }
                } else if r.below(100) < back_w {
                    ItOp::NextBack
                } else {
                    ItOp::Next
                }
            })
            .collect();
        // a quarter of the programs end by consuming the rest through internal iteration
        match r.below(14) {
            0 => v.push(ItOp::RestForEach),
            1 => v.push(ItOp::RestCount),
            2 => v.push(ItOp::RestLast),
            3 => v.push(if r.chance(1, 2) { ItOp::RestMin } else { ItOp::RestMax }),
            4 => v.push(ItOp::RestCollect),
            5 => v.push(ItOp::RestRevEach),
            _ => {}
        }
        v
    }
    pub fn rule(&mut self, cfg: &RunCfg, m: &Model) -> Rule {
        let keep = match self.rng.below(6) {
            0 => 100,
            1 => 0,
            2 => 90,
            3 => 10,
            _ => self.rng.below(101) as u8,
        };
        let rw = match self.rng.below(4) {
            0 => 0,
            1 => 100,
            _ => self.rng.below(101) as u8,
        };
        let tv = self.prio(cfg, None, m);
        let plw = if self.rng.chance(1, 3) { 40 } else { 0 };
        Rule { seed: self.rng.next(), keep, rw, tv, plw }
    }
    pub fn pairs(&mut self, cfg: &RunCfg, m: &Model, max: usize) -> Vec<P3> {
        let n = match self.rng.below(10) {
            0 => 0,
            1 => 1,
            2..=5 => 1 + self.rng.usize(4),
            6..=8 => self.rng.usize(max.min(20) + 1),
            _ => self.rng.usize(max + 1),
        };
        (0..n)
            .map(|_| {
                let k = self.key(m, cfg, 30);
                let p = self.prio(cfg, m.prio(k), m);
                (k, p, self.fresh_payload())
            })
            .collect()
    }
    pub fn hint(&mut self) -> Hint {
        match self.rng.below(if self.huge_hints { 12 } else { 9 }) {
            0 | 1 => Hint::Exact,
            2 => Hint::ZeroNone,
            3 => Hint::ZeroUpper,
            4 => Hint::LowNone,
            5 => Hint::Loose { sub: self.rng.usize(3), extra: 1 },
            6 => Hint::Loose { sub: self.rng.usize(3), extra: 17 },
            7 => Hint::Loose { sub: 1000, extra: 17 + self.rng.usize(40) },
            8 => Hint::Loose { sub: self.rng.usize(3), extra: 1000 },
            9 => Hint::Loose { sub: 0, extra: 1 << 20 },
            10 => Hint::Loose { sub: 1, extra: 1 << 40 },
            _ => Hint::Loose { sub: 0, extra: usize::MAX },
        }
    }

    pub fn step(&mut self, m: &Model, kind: Kind, cfg: &RunCfg) -> Step {
        if cfg.universe >= BIG && m.is_empty() && self.rng.chance(3, 4) {
            // the bulk load of a big run (again whenever the queue has been emptied)
            let n = cfg.universe as usize / 2 + self.rng.usize(cfg.universe as usize);
            let pairs: Vec<P3> = (0..n)
                .map(|_| {
                    let k = self.rng.below(cfg.universe as u64 + 1) as u32;
                    (k, self.prio(cfg, None, m), self.fresh_payload())
                })
                .collect();
            return match self.rng.below(4) {
                0 => Step::FromVec { extra: pairs },
                1 => Step::FromIter { extra: pairs, hint: self.hint() },
                _ => Step::Extend { pairs, hint: self.hint() },
            };
        }
        let fam = ALL_FAM[self.rng.weighted(&cfg.weights)];
        self.step_of(fam, m, kind, cfg)
    }

    /// A step aimed at dereferencing damaged index tables: item-addressed updates to the extremes,
    /// removals, extractions at both ends, insertions of new extremes.
    pub fn amplify_step(&mut self, m: &Model, kind: Kind, cfg: &RunCfg) -> Step {
        let k = self.key(m, cfg, 95);
        let cur = m.prio(k);
        let hi = m.max().map_or(1, |x| x.saturating_add(1));
        let lo = m.min().map_or(-1, |x| x.saturating_sub(1));
        let pl = self.fresh_payload();
        let e = if self.rng.chance(1, 2) { End::Min } else { End::Max };
        let _ = kind;
        match self.rng.below(12) {
            0 | 1 => Step::Change { k, p: lo, b: true, pl },
            2 | 3 => Step::Change { k, p: hi, b: true, pl },
            4 => Step::Change { k, p: cur.unwrap_or(0), b: false, pl },
            5 | 6 => Step::Remove { k, b: true, pl },
            7 | 8 => Step::Pop { e },
            9 => Step::Push { k: self.rng.below(cfg.universe as u64 + 1) as u32, p: if self.rng.chance(1, 2) { hi } else { lo }, pl },
            10 => Step::PushDec { k, p: lo, pl },
            _ => Step::PushInc { k, p: hi, pl },
        }
    }

    pub fn step_of(&mut self, fam: Fam, m: &Model, kind: Kind, cfg: &RunCfg) -> Step {
        let n = m.len();
        let e = if self.rng.chance(1, 2) { End::Min } else { End::Max };
        let dbl = kind == Kind::Dpq;
        match fam {
            Fam::Push => {
                let k = self.key(m, cfg, 35);
                Step::Push { k, p: self.prio(cfg, m.prio(k), m), pl: self.fresh_payload() }
            }
            Fam::PushInc | Fam::PushDec => {
                let k = self.key(m, cfg, 70);
                let p = self.prio(cfg, m.prio(k), m);
                let pl = self.fresh_payload();
                if fam == Fam::PushInc {
                    Step::PushInc { k, p, pl }
                } else {
                    Step::PushDec { k, p, pl }
                }
            }
            Fam::Change => {
                let k = self.key(m, cfg, 85);
                Step::Change { k, p: self.prio(cfg, m.prio(k), m), b: self.rng.chance(1, 2), pl: self.fresh_payload() }
            }
            Fam::ChangeBy => {
                let k = self.key(m, cfg, 85);
                Step::ChangeBy { k, p: self.prio(cfg, m.prio(k), m), b: self.rng.chance(1, 2), pl: self.fresh_payload() }
            }
            Fam::Remove => Step::Remove { k: self.key(m, cfg, 80), b: self.rng.chance(1, 2), pl: self.fresh_payload() },
            Fam::Pop => Step::Pop { e },
            Fam::PopIf => {
                let cur = match (kind, e) {
                    (Kind::Pq, _) | (_, End::Max) => m.max(),
                    _ => m.min(),
                };
                let rw = if self.rng.chance(1, 2) { Some(self.prio(cfg, cur, m)) } else { None };
                let pl = if self.rng.chance(1, 4) { Some(self.fresh_payload()) } else { None };
                Step::PopIf { e, acc: self.rng.chance(1, 2), rw, pl }
            }
            Fam::Peek => Step::Peek { e },
            Fam::PeekMut => Step::PeekMut { e, pl: if self.rng.chance(2, 3) { Some(self.fresh_payload()) } else { None } },
            Fam::Get => Step::Get { k: self.key(m, cfg, 60), b: self.rng.chance(1, 2) },
            Fam::GetMut => Step::GetMut { k: self.key(m, cfg, 70), b: self.rng.chance(1, 2), pl: if self.rng.chance(3, 4) { Some(self.fresh_payload()) } else { None } },
            Fam::Retain => Step::Retain { rule: self.rule(cfg, m), mutable: self.rng.chance(1, 2) },
            Fam::IterMut | Fam::IterMutLeak => {
                let via = match self.rng.below(8) {
                    0 => Via::RefMut,
                    1 | 2 if dbl => Via::Rev,
                    3 => Via::Take(self.rng.usize(n + 2)),
                    _ => Via::Direct,
                };
                let mut rule = self.rule(cfg, m);
                rule.keep = 100;
                let mut prog = self.prog(n, dbl);
                let late = self.late_writes && fam == Fam::IterMut && self.rng.chance(1, 12);
                if late && !matches!(prog.last(), Some(ItOp::RestLast)) {
                    prog.retain(|o| !matches!(o, ItOp::RestForEach | ItOp::RestCount | ItOp::RestLast | ItOp::RestMin | ItOp::RestMax | ItOp::RestCollect | ItOp::RestRevEach));
                    prog.push(ItOp::RestLast);
                }
                Step::IterMut { prog, via, end: if fam == Fam::IterMut { GEnd::Drop } else { GEnd::Forget }, rule, late }
            }
            Fam::Drain | Fam::DrainLeak => Step::Drain { prog: self.prog(n, true), end: if fam == Fam::Drain { GEnd::Drop } else { GEnd::Forget } },
            Fam::Iter => {
                let which = *self.rng.pick(&[ItKind::Iter, ItKind::IntoIter, ItKind::Drain, ItKind::Sorted]);
                Step::Iter { which, prog: self.prog(n, true) }
            }
            Fam::Adapt => {
                let which = *self.rng.pick(&[ItKind::Iter, ItKind::IntoIter, ItKind::Drain, ItKind::Sorted]);
                let a = self.rng.usize(n + 3);
                let b = self.rng.usize(n + 3);
                let ad = match self.rng.below(12) {
                    0 => Adaptor::Take(a),
                    1 => Adaptor::Skip(a),
                    2 => Adaptor::Zip,
                    3 => Adaptor::Peekable,
                    4 => Adaptor::Rev,
                    5 => Adaptor::Enumerate,
                    6 => Adaptor::TakeSkip(a, b),
                    7 => Adaptor::RevTake(a),
                    8 => Adaptor::SkipRev(a),
                    9 => Adaptor::EnumerateRev,
                    10 => Adaptor::StepBy(1 + a % 4),
                    _ => Adaptor::Chain,
                };
                Step::Adapt { which, ad }
            }
            Fam::Clear => Step::Clear,
            Fam::Shrink => Step::Shrink,
            Fam::Reserve => Step::Reserve { n: if self.rng.chance(1, 8) { *self.rng.pick(&[usize::MAX, usize::MAX - n, usize::MAX / 2 + 1, isize::MAX as usize]) } else { *self.rng.pick(&[0, 1, n, 1000, 7]) }, exact: self.rng.chance(1, 2) },
            Fam::TryReserve => {
                let nn = match self.rng.below(12) {
                    0 => 0,
                    1 => 1,
                    2 => n,
                    3 => 1000,
                    4 => usize::MAX,
                    5 => usize::MAX / 16,
                    6 => isize::MAX as usize,
                    7 => 1 << 40,
                    8 => usize::MAX / 64,
                    _ => 1 + self.rng.usize(300),
                };
                let fault = if self.alloc_faults && self.rng.chance(1, 2) { Some((self.rng.below(5), self.rng.chance(1, 2))) } else { None };
                Step::TryReserve { n: nn, exact: self.rng.chance(1, 2), fault }
            }
            Fam::Extend => {
                // big runs: batches on both sides of the push-versus-rebuild decision
                let max = if cfg.universe >= BIG && self.rng.chance(1, 2) { (2 * n + 6).min(12_000) } else { 60 };
                Step::Extend { pairs: self.pairs(cfg, m, max), hint: self.hint() }
            }
            Fam::Append => Step::Append { pairs: self.pairs(cfg, m, 2 * n + 6), via_vec: self.rng.chance(1, 3) },
            Fam::FromVec => Step::FromVec { extra: self.pairs(cfg, m, 12) },
            Fam::FromIter => Step::FromIter { extra: self.pairs(cfg, m, 12), hint: self.hint() },
            Fam::Convert => Step::Convert,
            Fam::CloneSwap => Step::CloneSwap,
            Fam::Serde => Step::Serde { switch: self.rng.chance(1, 3) },
            Fam::EqSelf => Step::EqSelf,
            Fam::Sorted => Step::Sorted { which: if self.rng.chance(1, 2) { SortedKind::VecA } else { SortedKind::VecB } },
            Fam::SortedEp => Step::SortedEp { prog: self.prog(n, dbl) },
            Fam::IntoVec => Step::IntoVec,
            Fam::CloneFrom => Step::CloneFrom { dst: self.pairs(cfg, m, 2 * n + 4) },
        }
    }
}

// ------------------------------------------------------------------------------------------
// the engine

pub struct HistOpts {
    /// mask of the property this run is a check for
    pub focus: u32,
    pub snapshot: bool,
    /// keep (exact, loose) return digests per step
    pub trace: bool,
    pub huge_hints: bool,
    pub alloc_faults: bool,
    /// hand a run whose index tables were seen inconsistent to an amplification child
    pub amplify: bool,
}

#[derive(Clone, Debug)]
pub enum RunEnd {
    Clean,
    Violation { step: usize, fail: Fail },
    Abandoned { step: usize, why: String },
}

pub struct RunResult {
    pub end: RunEnd,
    pub steps: Vec<Step>,
    pub digest: u64,
    pub trace: Vec<(u64, u64)>,
    pub probes: BTreeMap<&'static str, u64>,
    pub fam_mask: u64,
    pub max_size: usize,
    pub ticks: u64,
    pub foreign_nonfatal: u64,
    pub nontrivial: bool,
    pub sigs: Vec<u64>,
}

pub enum StepSrc {
    Gen(Gen),
    List(Vec<Step>),
    /// replay the list, then `extra` amplification steps (used by the amplification child)
    ListThenAmplify(Vec<Step>, Gen, usize),
}

pub fn cfg_digest(cfg: &RunCfg) -> u64 {
    let s = serde_json::to_string(cfg).unwrap_or_default();
    s.bytes().fold(0xcbf2_9ce4_8422_2325u64, |h, b| (h ^ b as u64).wrapping_mul(0x100_0000_01b3))
}
pub fn step_digest(st: &Step) -> u64 {
    let s = serde_json::to_string(st).unwrap_or_default();
    s.bytes().fold(0xcbf2_9ce4_8422_2325u64, |h, b| (h ^ b as u64).wrapping_mul(0x100_0000_01b3))
}

pub fn run_hist(cfg: &RunCfg, mut src: StepSrc, opts: &HistOpts) -> RunResult {
    ledger_reset();
    crate::hashers::reset_instances();
    disarm_all();
    reset_counts();
    hashers::set_current(cfg.hasher);
    if let StepSrc::Gen(g) = &mut src {
        g.huge_hints = opts.huge_hints;
        g.alloc_faults = opts.alloc_faults;
        g.late_writes = opts.focus == C08 && !light();
    }
    let mut res = RunResult {
        end: RunEnd::Clean,
        steps: Vec::new(),
        digest: cfg_digest(cfg),
        trace: Vec::new(),
        probes: BTreeMap::new(),
        fam_mask: 0,
        max_size: 0,
        ticks: 0,
        foreign_nonfatal: 0,
        nontrivial: false,
        sigs: Vec::new(),
    };
    let mut cx = Ctx::new(cfg.universe);
    cx.snapshot = opts.snapshot;
    let mut m = Model::default();
    let mut q = match guarded(|| construct(cfg.kind, cfg.ctor)) {
        Ok(q) => q,
        Err(e) => {
            res.end = judge_panic(opts.focus, C04, 0, e);
            return res;
        }
    };
    let mut total = match &src {
        StepSrc::Gen(_) => cfg.len,
        StepSrc::List(l) => l.len(),
        StepSrc::ListThenAmplify(l, _, extra) => l.len() + extra,
    };
    let mut seen_big = false;
    // amplification: once the index tables have been seen inconsistent (C04's own oracle; for any
    // other property that is only a hint), the run is handed to a child process which replays it
    // and then spends 40 extra steps on the operations most likely to turn the damage into
    // behaviour: updates of stored items to both extremes, removals, extractions, new extremes.
    // They are ordinary steps with the ordinary oracles; the child exists because dereferencing
    // damaged tables may abort the process, which is not this property's business.
    let mut i = 0usize;
    while i < total {
        let st = match &mut src {
            // while the order is suspended (a leaked iter_mut guard rewrote priorities) one step in
            // three is an operation documented to rebuild the heap: it must cope with an
            // unordered source, and from there on the order oracles are back on
            StepSrc::Gen(g) => {
                if cx.order_suspended && g.rng.chance(1, 3) {
                    let fam = *g.rng.pick(&[Fam::Convert, Fam::Convert, Fam::FromVec, Fam::FromIter, Fam::Retain, Fam::IterMut, Fam::CloneFrom]);
                    cx.probe("rebuild_requested_while_order_suspended");
                    g.step_of(fam, &m, q.kind(), cfg)
                } else {
                    g.step(&m, q.kind(), cfg)
                }
            }
            StepSrc::List(l) => l[i].clone(),
            StepSrc::ListThenAmplify(l, g, _) => {
                if i < l.len() {
                    l[i].clone()
                } else {
                    g.amplify_step(&m, q.kind(), cfg)
                }
            }
        };
        if crate::orch::track_level() >= 2 {
            let mut upto = res.steps.clone();
            upto.push(st.clone());
            crate::orch::track_line(2, &format!("B {}", serde_json::json!({"cfg": cfg, "steps": upto})));
        }
        cx.step_no = i as u32;
        cx.fails.clear();
        let n = q.len();
        cx.light = n > 200;
        cx.deep = if light() { n <= 6 && i % 3 == 0 } else { n <= 64 || i % 8 == 0 };
        if n >= 512 {
            cx.probe(if n >= 2048 { "step_on_size_ge_2048" } else { "step_on_size_ge_512" });
            if cx.deep {
                cx.probe("full_drain_of_a_clone_on_size_ge_512");
            }
        }
        res.max_size = res.max_size.max(n);
        if n >= 3 {
            seen_big = true;
        }
        res.fam_mask |= 1u64 << (st.fam() as u64);
        let r = guarded(|| {
            exec(&mut q, &mut m, &st, &mut cx);
            post_check(&mut q, &m, &st, &mut cx);
        });
        res.digest = mix(mix(res.digest, step_digest(&st)), cx.exact);
        if opts.trace {
            res.trace.push((cx.exact, cx.loose));
        }
        let fam = st.fam();
        res.steps.push(st);
        if q.len() >= 3 {
            seen_big = true;
        }
        if let Err(e) = r {
            crate::alloc::end();
            res.end = judge_panic(opts.focus, panic_tags(&res.steps[i]), i, e);
            break;
        }
        if !cx.fails.is_empty() {
            if let Some(f) = cx.fails.iter().find(|f| f.props & opts.focus != 0) {
                res.end = RunEnd::Violation { step: i, fail: f.clone() };
                break;
            }
            // a failure of another property's oracle: abandon if the model may have diverged
            // (a broken index table alone does not abandon the run: what it does to behaviour is
            // for the behavioural oracles of the following steps to say)
            if let Some(f) = cx.fails.iter().find(|f| f.props & (C03 | C12) != 0 || (f.props & C04 != 0 && !f.class.starts_with("tables"))) {
                res.end = RunEnd::Abandoned { step: i, why: format!("{} [{}] {}", mask_names(f.props), f.class, f.msg) };
                break;
            }
            res.foreign_nonfatal += cx.fails.len() as u64;
            if opts.amplify && opts.focus & C04 == 0 && cx.fails.iter().any(|f| f.class.starts_with("tables")) {
                if let StepSrc::Gen(g) = &mut src {
                    // continue in a child process: dereferencing damaged tables may abort
                    *res.probes.entry("amplification_started").or_insert(0) += 1;
                    let seed = g.rng.next();
                    match amplify_in_child(cfg, &res.steps, seed, opts) {
                        Ok(Some((step, fail, steps))) => {
                            *res.probes.entry("amplification_found_behavioural_failure").or_insert(0) += 1;
                            res.steps = steps;
                            res.end = RunEnd::Violation { step, fail };
                        }
                        Ok(None) => {}
                        Err(why) => {
                            *res.probes.entry("amplification_child_died_or_diverged").or_insert(0) += 1;
                            res.end = RunEnd::Abandoned { step: i, why };
                        }
                    }
                    break;
                }
            }
        }
        let _ = fam;
        i += 1;
    }
    res.ticks = ticks();
    res.nontrivial = seen_big && key_fams(opts.focus).iter().any(|f| res.fam_mask & (1u64 << (*f as u64)) != 0);
    // end of run: drop everything, then the ledger must balance
    let expected_leak = cx.expected_leak;
    let saw_dc = cx.saw_drain_or_clear;
    for (k, v) in std::mem::take(&mut cx.probes) {
        *res.probes.entry(k).or_insert(0) += v;
    }
    res.sigs = std::mem::take(&mut cx.sigs);
    let dr = guarded(move || {
        drop(q);
        drop(m);
    });
    if matches!(res.end, RunEnd::Clean) {
        if let Err(e) = dr {
            res.end = judge_panic(opts.focus, C04, res.steps.len(), e);
        } else {
            let (live, dd, _) = ledger_status();
            let mut fail = None;
            if dd > 0 {
                fail = Some(Fail { props: C04 | C10, class: "double_drop", msg: format!("{} item/priority values were dropped twice", dd) });
            } else if live != expected_leak {
                if saw_dc {
                    fail = Some(Fail { props: C16, class: "leak", msg: format!("{} values still alive after the queue was dropped; the harness itself leaked {} (forgotten drain guards)", live, expected_leak) });
                } else {
                    *res.probes.entry("leak_unattributed").or_insert(0) += 1;
                }
            }
            if let Some(f) = fail {
                if f.props & opts.focus != 0 {
                    res.end = RunEnd::Violation { step: res.steps.len(), fail: f };
                } else {
                    res.end = RunEnd::Abandoned { step: res.steps.len(), why: format!("[{}] {}", f.class, f.msg) };
                }
            }
        }
    }
    res
}

fn judge_panic(focus: u32, tags: u32, step: usize, e: Caught) -> RunEnd {
    let msg = match &e {
        Caught::Other(m, l) => format!("panicked: {} @ {}", m, l),
        other => format!("panicked: {:?}", other),
    };
    if tags & focus != 0 {
        RunEnd::Violation { step, fail: Fail { props: tags, class: "panic", msg } }
    } else {
        RunEnd::Abandoned { step, why: msg }
    }
}

// ------------------------------------------------------------------------------------------
// shrinking candidates for a history

pub fn shrink_candidates(cfg: &RunCfg, steps: &[Step], upto: usize) -> Vec<(RunCfg, Vec<Step>)> {
    let mut out = Vec::new();
    let steps = &steps[..steps.len().min(upto + 1)];
    if steps.len() < upto + 1 || steps.is_empty() {
        // nothing beyond the failing step to cut
    }
    let n = steps.len();
    // drop chunks, large to small
    let mut chunk = n / 2;
    while chunk >= 1 {
        let mut i = 0;
        while i + chunk <= n {
            let mut v = steps[..i].to_vec();
            v.extend_from_slice(&steps[i + chunk..]);
            out.push((cfg.clone(), v));
            i += chunk;
        }
        chunk /= 2;
    }
    // simplify single steps
    for (i, st) in steps.iter().enumerate() {
        for s2 in simplify_step(st) {
            let mut v = steps.to_vec();
            v[i] = s2;
            out.push((cfg.clone(), v));
        }
    }
    // simpler configuration
    if cfg.hasher != HasherKind::Seeded(1, 2) {
        let mut c2 = cfg.clone();
        c2.hasher = HasherKind::Seeded(1, 2);
        out.push((c2, steps.to_vec()));
    }
    if cfg.ctor != Ctor::WithHasher {
        let mut c2 = cfg.clone();
        c2.ctor = Ctor::WithHasher;
        out.push((c2, steps.to_vec()));
    }
    out
}

fn shrink_pairs(p: &[P3]) -> Vec<Vec<P3>> {
    let mut out = Vec::new();
    if p.is_empty() {
        return out;
    }
    out.push(p[..p.len() / 2].to_vec());
    out.push(p[p.len() / 2..].to_vec());
    if p.len() <= 8 {
        for i in 0..p.len() {
            let mut v = p.to_vec();
            v.remove(i);
            out.push(v);
        }
    }
    out
}
fn shrink_prog(p: &[ItOp]) -> Vec<Vec<ItOp>> {
    let mut out = Vec::new();
    if p.is_empty() {
        return out;
    }
    out.push(p[..p.len() - 1].to_vec());
    out.push(p[1..].to_vec());
    out.push(p[..p.len() / 2].to_vec());
    if p.len() <= 10 {
        for i in 0..p.len() {
            let mut v = p.to_vec();
            v.remove(i);
            out.push(v);
        }
    }
    out
}
fn small_p(p: i32) -> Vec<i32> {
    let mut v = Vec::new();
    if p != 0 {
        v.push(0);
    }
    if p.unsigned_abs() > 1 {
        v.push(p / 2);
    }
    if p > 0 {
        v.push(p - 1)
    }
    if p < 0 {
        v.push(p + 1)
    }
    v
}

pub fn simplify_step(st: &Step) -> Vec<Step> {
    let mut o = Vec::new();
    match st {
        Step::Push { k, p, pl } => {
            for v in small_p(*p) {
                o.push(Step::Push { k: *k, p: v, pl: *pl });
            }
            if *k > 0 {
                o.push(Step::Push { k: k / 2, p: *p, pl: *pl });
            }
        }
        Step::Change { k, p, b, pl } => {
            for v in small_p(*p) {
                o.push(Step::Change { k: *k, p: v, b: *b, pl: *pl });
            }
            if *b {
                o.push(Step::Change { k: *k, p: *p, b: false, pl: *pl });
            }
        }
        Step::ChangeBy { k, p, b, pl } => o.push(Step::Change { k: *k, p: *p, b: *b, pl: *pl }),
        Step::PushInc { k, p, pl } | Step::PushDec { k, p, pl } => {
            for v in small_p(*p) {
                o.push(if matches!(st, Step::PushInc { .. }) { Step::PushInc { k: *k, p: v, pl: *pl } } else { Step::PushDec { k: *k, p: v, pl: *pl } });
            }
        }
        Step::PopIf { e, acc, rw, pl } => {
            if rw.is_some() {
                o.push(Step::PopIf { e: *e, acc: *acc, rw: None, pl: *pl });
            }
            if pl.is_some() {
                o.push(Step::PopIf { e: *e, acc: *acc, rw: *rw, pl: None });
            }
            if *acc && rw.is_none() {
                o.push(Step::Pop { e: *e });
            }
        }
        Step::Extend { pairs, hint } => {
            for v in shrink_pairs(pairs) {
                o.push(Step::Extend { pairs: v, hint: *hint });
            }
            if *hint != Hint::Exact {
                o.push(Step::Extend { pairs: pairs.clone(), hint: Hint::Exact });
            }
            if pairs.len() == 1 {
                o.push(Step::Push { k: pairs[0].0, p: pairs[0].1, pl: pairs[0].2 });
            }
        }
        Step::Append { pairs, via_vec } => {
            for v in shrink_pairs(pairs) {
                o.push(Step::Append { pairs: v, via_vec: *via_vec });
            }
        }
        Step::FromVec { extra } => {
            for v in shrink_pairs(extra) {
                o.push(Step::FromVec { extra: v });
            }
        }
        Step::FromIter { extra, hint } => {
            for v in shrink_pairs(extra) {
                o.push(Step::FromIter { extra: v, hint: *hint });
            }
            if *hint != Hint::Exact {
                o.push(Step::FromIter { extra: extra.clone(), hint: Hint::Exact });
            }
        }
        Step::IterMut { prog, via, end, rule, late } => {
            for v in shrink_prog(prog) {
                o.push(Step::IterMut { prog: v, via: *via, end: *end, rule: *rule, late: *late });
            }
            if *via != Via::Direct {
                o.push(Step::IterMut { prog: prog.clone(), via: Via::Direct, end: *end, rule: *rule, late: *late });
            }
            if rule.rw != 0 || rule.plw != 0 {
                let mut r2 = *rule;
                r2.rw = 0;
                r2.plw = 0;
                o.push(Step::IterMut { prog: prog.clone(), via: *via, end: *end, rule: r2, late: *late });
            }
            if *late {
                o.push(Step::IterMut { prog: prog.clone(), via: *via, end: *end, rule: *rule, late: false });
            }
        }
        Step::Drain { prog, end } => {
            for v in shrink_prog(prog) {
                o.push(Step::Drain { prog: v, end: *end });
            }
            if *end == GEnd::Forget {
                o.push(Step::Drain { prog: prog.clone(), end: GEnd::Drop });
            }
        }
        Step::Iter { which, prog } => {
            for v in shrink_prog(prog) {
                o.push(Step::Iter { which: *which, prog: v });
            }
        }
        Step::SortedEp { prog } => {
            for v in shrink_prog(prog) {
                o.push(Step::SortedEp { prog: v });
            }
        }
        Step::Retain { rule, mutable } => {
            if rule.rw != 0 || rule.plw != 0 {
                let mut r2 = *rule;
                r2.rw = 0;
                r2.plw = 0;
                o.push(Step::Retain { rule: r2, mutable: *mutable });
            }
            if *mutable {
                o.push(Step::Retain { rule: *rule, mutable: false });
            }
        }
        Step::CloneFrom { dst } => {
            for v in shrink_pairs(dst) {
                o.push(Step::CloneFrom { dst: v });
            }
            o.push(Step::CloneSwap);
        }
        Step::TryReserve { n, exact, fault } => {
            if fault.is_some() {
                o.push(Step::TryReserve { n: *n, exact: *exact, fault: None });
            }
        }
        _ => {}
    }
    o
}


// ------------------------------------------------------------------------------------------
// amplification in a child process

#[derive(serde::Serialize, serde::Deserialize)]
pub struct AmpRequest {
    pub focus: u32,
    pub cfg: RunCfg,
    pub steps: Vec<Step>,
    pub seed: u64,
    pub huge_hints: bool,
    pub alloc_faults: bool,
}

#[derive(serde::Serialize, serde::Deserialize)]
pub struct AmpReply {
    pub violation: Option<(usize, u32, String, String)>,
    pub abandoned: Option<String>,
    pub steps: Vec<Step>,
}

fn leak_class(c: &str) -> &'static str {
    // oracle class names are &'static str in the parent; map the child's strings back
    Box::leak(c.to_string().into_boxed_str())
}

/// Ok(Some(..)) = a failure of the focus property was found; Ok(None) = nothing; Err = the child
/// died or the run diverged for another property.
pub fn amplify_in_child(cfg: &RunCfg, steps: &[Step], seed: u64, opts: &HistOpts) -> Result<Option<(usize, Fail, Vec<Step>)>, String> {
    let dir = crate::orch::scratch_dir();
    let path = dir.join(format!("amp-{}.json", seed));
    let req = AmpRequest { focus: opts.focus, cfg: cfg.clone(), steps: steps.to_vec(), seed, huge_hints: opts.huge_hints, alloc_faults: opts.alloc_faults };
    std::fs::write(&path, serde_json::to_string(&req).unwrap()).map_err(|e| e.to_string())?;
    let out = std::process::Command::new(std::env::current_exe().map_err(|e| e.to_string())?)
        .arg("amplify")
        .arg(&path)
        .env_remove("RUST_BACKTRACE")
        .stdin(std::process::Stdio::null())
        .stderr(std::process::Stdio::null())
        .output()
        .map_err(|e| e.to_string())?;
    let _ = std::fs::remove_file(&path);
    let _ = std::fs::remove_dir(&dir);
    if !out.status.success() {
        return Err(format!("amplification child died ({:?}): damaged index tables were dereferenced", out.status));
    }
    let text = String::from_utf8_lossy(&out.stdout);
    let line = text.lines().find_map(|l| l.strip_prefix("AMP ")).ok_or("no reply from the amplification child")?;
    let rep: AmpReply = serde_json::from_str(line).map_err(|e| e.to_string())?;
    if let Some((step, props, class, msg)) = rep.violation {
        return Ok(Some((step, Fail { props, class: leak_class(&class), msg }, rep.steps)));
    }
    if let Some(why) = rep.abandoned {
        return Err(why);
    }
    Ok(None)
}

pub fn amplify_main(path: &str) -> i32 {
    let req: AmpRequest = match std::fs::read_to_string(path).ok().and_then(|s| serde_json::from_str(&s).ok()) {
        Some(r) => r,
        None => return 2,
    };
    let opts = HistOpts { focus: req.focus, snapshot: true, trace: false, huge_hints: req.huge_hints, alloc_faults: req.alloc_faults, amplify: false };
    let r = run_hist(&req.cfg, StepSrc::ListThenAmplify(req.steps, Gen::new(Rng::new(req.seed)), 40), &opts);
    let rep = match r.end {
        RunEnd::Violation { step, fail } if fail.props & req.focus != 0 => AmpReply { violation: Some((step, fail.props, fail.class.to_string(), fail.msg)), abandoned: None, steps: r.steps[..=step.min(r.steps.len().saturating_sub(1))].to_vec() },
        RunEnd::Violation { fail, .. } => AmpReply { violation: None, abandoned: Some(format!("[{}] {}", fail.class, fail.msg)), steps: Vec::new() },
        RunEnd::Abandoned { why, .. } => AmpReply { violation: None, abandoned: Some(why), steps: Vec::new() },
        RunEnd::Clean => AmpReply { violation: None, abandoned: None, steps: Vec::new() },
    };
    println!("AMP {}", serde_json::to_string(&rep).unwrap());
    0
}
