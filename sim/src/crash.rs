//! C10: crash-point enumeration. A seeded fault-free prefix reaches a state; one operation is run
//! with "panic at the k-th callback of class c" for every (c, k) it offers on that state (plus
//! guard leaks); each crashed queue is then driven through seeded continuations (which may
//! carry a second fault) and finally dropped. Alarms need a concrete breach: an abort classified
//! as a memory-safety violation, a double drop, or a leak that no harness-forgotten guard explains.

use crate::engines::{REAL, STUBBED};
use crate::exec::*;
use crate::hist::*;
use crate::model::Model;
use crate::orch::*;
use crate::queue::*;
use crate::rng::{mix, Rng};
use crate::sources::HintedSource;
use crate::steps::*;
use crate::types::*;
use serde::{Deserialize, Serialize};
use serde_json::json;

#[derive(Clone, Debug, PartialEq, Eq, Serialize, Deserialize)]
pub struct Armed {
    pub step: Step,
    /// panic at the k-th (0-based) callback of this class during the step
    pub plan: Option<(Cb, u64)>,
}

#[derive(Clone, Debug, Serialize, Deserialize)]
pub struct CrashBody {
    pub cfg: RunCfg,
    pub prefix: Vec<Step>,
    pub fault: Armed,
    pub cont: Vec<Armed>,
}

fn mk(v: &[P3]) -> Vec<(Key, Prio)> {
    v.iter().map(|&(k, p, pl)| (Key::new(k, pl), Prio::new(p))).collect()
}

/// Perform a step on the real queue with no model and no oracle; closures handed to the crate
/// report to the fault plan. Returns tokens (2 per element) left in a guard the harness forgot.
pub fn exec_raw(q: &mut AnyQ, st: &Step) -> u64 {
    let kind = q.kind();
    let mut leaked = 0u64;
    match st {
        Step::Push { k, p, pl } => {
            q.push(Key::new(*k, *pl), Prio::new(*p));
        }
        Step::PushInc { k, p, pl } => {
            q.push_increase(Key::new(*k, *pl), Prio::new(*p));
        }
        Step::PushDec { k, p, pl } => {
            q.push_decrease(Key::new(*k, *pl), Prio::new(*p));
        }
        Step::Change { k, p, b, pl } => {
            if *b {
                q.change_priority_borrowed(&KeyId(*k), Prio::new(*p));
            } else {
                q.change_priority_owned(&Key::new(*k, *pl), Prio::new(*p));
            }
        }
        Step::ChangeBy { k, p, b, pl } => {
            let f = |x: &mut Prio| {
                callback(Cb::Setter);
                x.v = *p;
                callback(Cb::Setter);
            };
            if *b {
                q.change_priority_by_borrowed(&KeyId(*k), f);
            } else {
                q.change_priority_by_owned(&Key::new(*k, *pl), f);
            }
        }
        Step::Remove { k, b, pl } => {
            if *b {
                q.remove_borrowed(&KeyId(*k));
            } else {
                q.remove_owned(&Key::new(*k, *pl));
            }
        }
        Step::Pop { e } => {
            q.pop(*e);
        }
        Step::PopIf { e, acc, rw, pl } => {
            q.pop_if(*e, |key, pr| {
                callback(Cb::Predicate);
                if let Some(v) = rw {
                    pr.v = *v;
                }
                if let Some(v) = pl {
                    key.payload = *v;
                }
                callback(Cb::Predicate);
                *acc
            });
        }
        Step::Peek { e } => {
            q.peek(*e);
        }
        Step::PeekMut { e, pl } => {
            if let Some((key, _)) = q.peek_mut(*e) {
                if let Some(v) = pl {
                    key.payload = *v;
                }
            }
        }
        Step::Get { k, b } => {
            if *b {
                q.get_borrowed(&KeyId(*k));
            } else {
                q.get_owned(&Key::new(*k, 0));
            }
        }
        Step::GetMut { k, b, pl } => {
            let r = if *b { q.get_mut_borrowed(&KeyId(*k)) } else { q.get_mut_owned(&Key::new(*k, 0)) };
            if let (Some((key, _)), Some(v)) = (r, pl) {
                key.payload = *v;
            }
        }
        Step::Retain { rule, mutable } => {
            if *mutable {
                q.retain_mut(|key, pr| {
                    callback(Cb::Predicate);
                    if let Some(v) = rule.rewrite(key.id(), pr.v) {
                        pr.v = v;
                    }
                    rule.keeps(key.id())
                });
            } else {
                q.retain(|key, _| {
                    callback(Cb::Predicate);
                    rule.keeps(key.id())
                });
            }
        }
        Step::IterMut { prog, via, end, rule, .. } => {
            fn body<'a, I: Iterator<Item = (&'a mut Key, &'a mut Prio)>>(mut it: I, prog: &[ItOp], rule: &Rule, end: GEnd, back: &mut dyn FnMut(&mut I) -> Option<(&'a mut Key, &'a mut Prio)>) {
                for op in prog {
                    let r = match op {
                        ItOp::Next => it.next(),
                        ItOp::NextBack => back(&mut it),
                        _ => {
                            let _ = it.size_hint();
                            None
                        }
                    };
                    if let Some((k, p)) = r {
                        // the caller's loop body: user code that may panic between two nexts
                        callback(Cb::LoopBody);
                        if let Some(v) = rule.rewrite(k.id(), p.v) {
                            p.v = v;
                        }
                    }
                }
                match end {
                    GEnd::Drop => drop(it),
                    GEnd::Forget => std::mem::forget(it),
                }
            }
            match q {
                AnyQ::Pq(pq) => match via {
                    Via::Take(k) => body(pq.iter_mut().take(*k), prog, rule, *end, &mut |i| i.next()),
                    Via::RefMut => body((&mut *pq).into_iter(), prog, rule, *end, &mut |i| i.next()),
                    _ => body(pq.iter_mut(), prog, rule, *end, &mut |i| i.next()),
                },
                AnyQ::Dpq(dq) => match via {
                    Via::Take(k) => body(dq.iter_mut().take(*k), prog, rule, *end, &mut |i| i.next_back()),
                    Via::RefMut => body((&mut *dq).into_iter(), prog, rule, *end, &mut |i| i.next_back()),
                    Via::Rev => body(dq.iter_mut().rev(), prog, rule, *end, &mut |i| i.next_back()),
                    Via::Direct => body(dq.iter_mut(), prog, rule, *end, &mut |i| i.next_back()),
                },
            }
        }
        Step::Drain { prog, end } => {
            let total = q.len() as u64;
            both!(q, qq => {
                let mut it = qq.drain();
                let mut taken = 0u64;
                for op in prog {
                    let r = match op {
                        ItOp::Next => it.next(),
                        ItOp::NextBack => it.next_back(),
                        _ => { let _ = it.len(); None }
                    };
                    if r.is_some() {
                        taken += 1;
                        callback(Cb::LoopBody);
                    }
                }
                match end {
                    GEnd::Drop => drop(it),
                    GEnd::Forget => {
                        // what the guard really still owns is what the map held at drain() minus
                        // what was yielded; `len()` may have been stale on a crashed queue
                        let rem = it.len() as u64;
                        let _ = (total, taken);
                        leaked = 2 * rem;
                        std::mem::forget(it)
                    }
                }
            });
        }
        Step::Iter { which, prog } => {
            let n = prog.len();
            match which {
                ItKind::Iter => both!(q, qq => { let _ = qq.iter().take(n).count(); }),
                ItKind::IntoIter => both!(q.clone(), qq => { let _ = qq.into_iter().rev().take(n).count(); }),
                ItKind::Drain => both!(q.clone(), qq => { let mut qq = qq; let _ = qq.drain().take(n).count(); }),
                ItKind::Sorted => match q.clone() {
                    AnyQ::Pq(x) => {
                        let _ = x.into_sorted_iter().take(n + 1).count();
                    }
                    AnyQ::Dpq(x) => {
                        let mut it = x.into_sorted_iter();
                        for op in prog {
                            match op {
                                ItOp::NextBack => {
                                    it.next_back();
                                }
                                _ => {
                                    it.next();
                                }
                            }
                        }
                    }
                },
            }
        }
        Step::Adapt { .. } => {
            both!(q, qq => { let _ = qq.iter().rev().count(); });
        }
        Step::Clear => q.clear(),
        Step::Shrink => q.shrink_to_fit(),
        Step::Reserve { n, exact } => {
            if *exact {
                q.reserve_exact((*n).min(2000))
            } else {
                q.reserve((*n).min(2000))
            }
        }
        Step::TryReserve { n, exact, .. } => {
            let _ = if *exact { q.try_reserve_exact(*n) } else { q.try_reserve(*n) };
        }
        Step::Extend { pairs, hint } => q.extend(HintedSource::new(mk(pairs), *hint)),
        Step::Append { pairs, via_vec } => {
            let mut other = if *via_vec {
                AnyQ::from_vec(kind, mk(pairs))
            } else {
                let mut o = construct(kind, Ctor::WithHasher);
                for (key, pr) in mk(pairs) {
                    o.push(key, pr);
                }
                o
            };
            // whatever happens inside append (a panic in Hash/Eq may tear either queue), the
            // other queue is used again afterwards and then dropped
            let r = std::panic::catch_unwind(std::panic::AssertUnwindSafe(|| q.append(&mut other)));
            poke(&mut other);
            let _ = guarded(move || drop(other));
            if let Err(p) = r {
                std::panic::resume_unwind(p);
            }
        }
        Step::FromVec { extra } => {
            let old = std::mem::replace(q, construct(kind, Ctor::WithHasher));
            let mut v = old.into_pairs();
            v.extend(mk(extra));
            *q = AnyQ::from_vec(kind, v);
        }
        Step::FromIter { extra, hint } => {
            let old = std::mem::replace(q, construct(kind, Ctor::WithHasher));
            let mut v = old.into_pairs();
            v.extend(mk(extra));
            *q = AnyQ::from_iter(kind, HintedSource::new(v, *hint));
        }
        Step::Convert => {
            let old = std::mem::replace(q, construct(kind, Ctor::WithHasher));
            *q = old.convert();
        }
        Step::CloneSwap => {
            let cl = q.clone();
            *q = cl;
        }
        Step::CloneFrom { dst } => {
            // the queue under test is the destination: a panic in a user Clone leaves IT half done
            let mut src = construct(kind, Ctor::WithHasher);
            for (key, pr) in mk(dst) {
                src.push(key, pr);
            }
            q.clone_from_q(&src);
        }
        Step::Serde { .. } => {
            let s = q.to_json();
            if let Ok(nq) = AnyQ::from_json(kind, &s) {
                *q = nq;
            }
        }
        Step::EqSelf => {
            let cl = q.clone();
            let _ = cl.eq_q(q);
        }
        Step::Sorted { which } => match (q.clone(), which) {
            (AnyQ::Pq(x), SortedKind::VecA) => {
                x.into_sorted_vec();
            }
            (AnyQ::Pq(x), SortedKind::VecB) => {
                let _ = x.into_sorted_iter().count();
            }
            (AnyQ::Dpq(x), SortedKind::VecA) => {
                x.into_ascending_sorted_vec();
            }
            (AnyQ::Dpq(x), SortedKind::VecB) => {
                x.into_descending_sorted_vec();
            }
        },
        Step::SortedEp { prog } => {
            if let AnyQ::Dpq(x) = q.clone() {
                let mut it = x.into_sorted_iter();
                for op in prog {
                    match op {
                        ItOp::NextBack => {
                            it.next_back();
                        }
                        ItOp::Next => {
                            it.next();
                        }
                        _ => {
                            let _ = it.len();
                        }
                    }
                }
            }
        }
        Step::IntoVec => {
            let _ = q.clone().into_vec();
        }
    }
    leaked
}

/// A battery of public operations on a queue that may have been torn by a caught panic; every
/// call is guarded on its own (safe panics are fine, an out-of-bounds unchecked access aborts).
pub fn poke(q: &mut AnyQ) {
    let was_armed: Vec<(Cb, bool)> = ALL_CB.iter().map(|c| (*c, armed(*c))).collect();
    let _ = was_armed;
    let _ = guarded(|| (q.len(), q.is_empty(), q.peek(End::Min), q.peek(End::Max)));
    let _ = guarded(|| q.peek_mut(End::Max).map(|(k, _)| k.payload = 1));
    let _ = guarded(|| q.peek_mut(End::Min).map(|(k, _)| k.payload = 2));
    let ids: Vec<u32> = guarded(|| q.contents().iter().map(|x| x.0).collect()).unwrap_or_default();
    for k in ids.iter().take(3) {
        let _ = guarded(|| q.change_priority_borrowed(&KeyId(*k), Prio::new(7)));
        let _ = guarded(|| q.get_mut_borrowed(&KeyId(*k)).map(|(kk, _)| kk.payload = 3));
    }
    let _ = guarded(|| q.push(Key::new(0x6000_0001, 1), Prio::new(1)));
    let _ = guarded(|| q.pop(End::Max));
    let _ = guarded(|| q.pop(End::Min));
    if let Some(k) = ids.first() {
        let _ = guarded(|| q.remove_borrowed(&KeyId(*k)));
    }
    let _ = guarded(|| q.push(Key::new(0x6000_0002, 1), Prio::new(2)));
}

#[derive(Debug, Default, Clone)]
pub struct CaseOut {
    pub fired: bool,
    pub fault_class: Option<Cb>,
    pub cont_panics: u64,
    pub cont_second_faults: u64,
    pub damage: Vec<&'static str>,
    pub fail: Option<FailRec>,
    pub tick_budget_hits: u64,
}

const OP_TICK_LIMIT: u64 = 200_000;

/// Classify what the crash left behind (coverage and continuation steering only — never an alarm).
pub fn damage_of(q: &AnyQ) -> (Vec<&'static str>, Option<usize>, Option<usize>) {
    // indexmap's own debug assertions may fire on a map whose retain was interrupted
    match guarded(|| damage_of_inner(q)) {
        Ok(r) => r,
        Err(_) => (vec!["indexmap_debug_assertion"], None, None),
    }
}

fn damage_of_inner(q: &AnyQ) -> (Vec<&'static str>, Option<usize>, Option<usize>) {
    let s = q.snapshot();
    let mut d = Vec::new();
    if !(s.size == s.map_len && s.heap.len() == s.size && s.qp.len() == s.size) {
        d.push("length_mismatch");
    }
    let n = s.heap.len();
    let mut seen = vec![0u32; n.max(s.qp.len()) + 1];
    let mut dup = None;
    for x in &s.heap {
        if *x < seen.len() {
            seen[*x] += 1;
            if seen[*x] == 2 {
                dup = Some(*x);
            }
        }
    }
    let missing = (0..n).find(|i| seen[*i] == 0);
    if dup.is_some() {
        d.push("duplicated_slot_index");
    }
    let stale = (0..s.qp.len().min(n)).any(|i| s.qp[i] >= n || s.heap[s.qp[i]] != i);
    if stale {
        d.push("stale_qp_entry");
    }
    (d, dup, missing)
}

fn run_armed(q: &mut AnyQ, a: &Armed) -> (Result<u64, Caught>, bool) {
    reset_counts();
    set_tick_limit(OP_TICK_LIMIT);
    if let Some((c, k)) = a.plan {
        arm(c, k);
    }
    let r = guarded(|| exec_raw(q, &a.step));
    let still_armed = a.plan.map_or(false, |(c, _)| armed(c));
    disarm_all();
    crate::alloc::end();
    (r, a.plan.is_some() && !still_armed)
}

/// Execute one crash case on `q` (consumed). `expected_leak0`: tokens already leaked on purpose.
pub fn run_case_on(mut q: AnyQ, fault: &Armed, cont: &[Armed], prop: &str) -> CaseOut {
    let mut out = CaseOut::default();
    let (live0, dd0, _) = ledger_status();
    // the tokens of q itself are alive now and must be gone at the end
    let own = 2 * q.contents().len() as u64;
    let _ = own;
    let mut expected_leak = 0u64;
    let (r, fired) = run_armed(&mut q, fault);
    out.fired = fired;
    out.fault_class = fault.plan.map(|p| p.0);
    match r {
        Ok(l) => expected_leak += l,
        Err(Caught::Injected(_)) => {}
        Err(Caught::TickBudget) => out.tick_budget_hits += 1,
        Err(Caught::Other(..)) => out.cont_panics += 1,
    }
    out.damage = damage_of(&q).0;
    for a in cont {
        let (r, fired2) = run_armed(&mut q, a);
        if fired2 {
            out.cont_second_faults += 1;
        }
        match r {
            Ok(l) => expected_leak += l,
            Err(Caught::Injected(_)) => {}
            Err(Caught::TickBudget) => out.tick_budget_hits += 1,
            Err(Caught::Other(..)) => out.cont_panics += 1,
        }
    }
    set_tick_limit(OP_TICK_LIMIT);
    reset_counts();
    let dr = guarded(move || drop(q));
    disarm_all();
    if let Err(Caught::Other(m, l)) = &dr {
        // a panic while dropping the queue itself: values it still owns may leak; that is a safe
        // outcome of the crate only if nothing is double dropped — but a leak here is reportable
        out.cont_panics += 1;
        let _ = (m, l);
    }
    let (live1, dd1, _) = ledger_status();
    if dd1 > dd0 {
        out.fail = Some(FailRec { props: prop.into(), class: "double_drop".into(), msg: format!("{} item/priority values were dropped twice after a caught panic / leaked guard", dd1 - dd0), step: cont.len() });
    } else {
        // everything the case created must be gone, except what a forgotten drain guard owns
        let base = live0 - own.min(live0);
        let extra = live1 as i64 - base as i64;
        if extra != expected_leak as i64 {
            out.fail = Some(FailRec {
                props: prop.into(),
                class: "leak".into(),
                msg: format!("{} values still alive after the queue was dropped; guards forgotten by the harness account for {}", extra, expected_leak),
                step: cont.len(),
            });
        }
    }
    out
}

pub struct CrashEngine {
    pub quick_runs: u64,
    pub thorough_runs: u64,
}

fn fault_op_weights() -> Vec<u32> {
    let mut w = vec![0u32; N_FAM];
    for (f, v) in [
        (Fam::Push, 16),
        (Fam::PushInc, 4),
        (Fam::PushDec, 4),
        (Fam::Change, 10),
        (Fam::ChangeBy, 8),
        (Fam::Remove, 8),
        (Fam::Pop, 8),
        (Fam::PopIf, 8),
        (Fam::Retain, 8),
        (Fam::IterMut, 8),
        (Fam::IterMutLeak, 4),
        (Fam::Drain, 2),
        (Fam::DrainLeak, 4),
        (Fam::Extend, 10),
        (Fam::Append, 5),
        (Fam::FromVec, 2),
        (Fam::FromIter, 3),
        (Fam::Convert, 3),
        (Fam::CloneSwap, 4),
        (Fam::CloneFrom, 2),
        (Fam::EqSelf, 2),
        (Fam::Sorted, 2),
        (Fam::SortedEp, 1),
        (Fam::Serde, 1),
        (Fam::IntoVec, 1),
        (Fam::Iter, 1),
        (Fam::GetMut, 1),
        (Fam::PeekMut, 1),
    ] {
        w[f as usize] = v;
    }
    w
}

fn cont_weights() -> Vec<u32> {
    let mut w = vec![0u32; N_FAM];
    for (f, v) in [
        (Fam::Push, 14),
        (Fam::Change, 8),
        (Fam::ChangeBy, 3),
        (Fam::Remove, 14),
        (Fam::Pop, 16),
        (Fam::PopIf, 4),
        (Fam::Retain, 3),
        (Fam::IterMut, 3),
        (Fam::IterMutLeak, 1),
        (Fam::Drain, 1),
        (Fam::DrainLeak, 1),
        (Fam::Extend, 4),
        (Fam::Append, 2),
        (Fam::Convert, 2),
        (Fam::CloneSwap, 2),
        (Fam::Sorted, 2),
        (Fam::Clear, 1),
        (Fam::Shrink, 1),
        (Fam::PushInc, 2),
        (Fam::PushDec, 2),
        (Fam::PeekMut, 1),
        (Fam::GetMut, 1),
        (Fam::FromIter, 1),
        (Fam::EqSelf, 1),
    ] {
        w[f as usize] = v;
    }
    w
}

fn prefix_weights() -> Vec<u32> {
    let mut w = vec![0u32; N_FAM];
    for (f, v) in [(Fam::Push, 30), (Fam::Change, 8), (Fam::Remove, 5), (Fam::Pop, 4), (Fam::Extend, 4), (Fam::PopIf, 1), (Fam::Retain, 1), (Fam::Convert, 1), (Fam::Append, 1), (Fam::IterMut, 1)] {
        w[f as usize] = v;
    }
    w
}

/// Build the state of a case from its explicit prefix (fault-free, with the model so that the
/// generator can pick present items).
fn build_state(cfg: &RunCfg, prefix: &[Step]) -> Result<(AnyQ, Model), String> {
    crate::hashers::set_current(cfg.hasher);
    disarm_all();
    let mut q = construct(cfg.kind, cfg.ctor);
    let mut m = Model::default();
    let mut cx = Ctx::new(cfg.universe);
    cx.deep = false;
    for st in prefix {
        guarded(|| exec(&mut q, &mut m, st, &mut cx)).map_err(|e| format!("prefix step panicked: {:?}", e))?;
    }
    Ok((q, m))
}

fn gen_cont(g: &mut Gen, m: &Model, kind: Kind, cfg: &RunCfg, targets: &[u32], second_fault: bool) -> Vec<Armed> {
    let mut c = Vec::new();
    let mut cfg2 = cfg.clone();
    cfg2.weights = cont_weights();
    // steer toward what dereferences the damage: the items owning the damaged slots, shrinking ops
    if !targets.is_empty() && g.rng.chance(2, 3) {
        let mut t = targets.to_vec();
        g.rng.shuffle(&mut t);
        for k in t.into_iter().take(2) {
            c.push(Armed {
                step: match g.rng.below(3) {
                    0 => Step::Remove { k, b: true, pl: 0 },
                    1 => Step::Change { k, p: g.prio(cfg, None, m), b: true, pl: 0 },
                    _ => Step::Push { k, p: g.prio(cfg, None, m), pl: 1 },
                },
                plan: None,
            });
        }
    }
    let n = if light() { 1 + g.rng.usize(4) } else { 2 + g.rng.usize(10) };
    for _ in 0..n {
        let step = g.step(m, kind, &cfg2);
        let plan = if second_fault && g.rng.chance(1, 6) { Some((*g.rng.pick(&[Cb::Cmp, Cb::Cmp, Cb::Hash, Cb::Eq, Cb::Predicate, Cb::CloneKey, Cb::SourceNext]), g.rng.below(6))) } else { None };
        c.push(Armed { step, plan });
    }
    c
}

impl CrashEngine {
    fn track(&self, body: &CrashBody) {
        if track_level() >= 2 {
            track_line(2, &format!("B {}", serde_json::to_string(body).unwrap()));
        }
    }
}

impl Engine for CrashEngine {
    fn prop(&self) -> &'static str {
        "C10"
    }
    fn info(&self) -> EngineInfo {
        EngineInfo {
            level: "fault_enumeration",
            unit: "cases: (state reached by a seeded fault-free prefix, faulty operation, crash point = callback class x index k or guard leak, continuation of up to 14 further possibly faulty steps, drop)",
            rule: "per (state, operation) a dry run counts the callbacks of each class and EVERY index k < min(count, 64) of every class is crashed (complete enumeration of crash points for that state/operation; states, operations and continuations are sampled). A case is non-trivial if its fault actually fired (or it is a guard leak) on a queue of >= 2 elements; distinct = distinct digest of (state, operation, crash point, continuation)".into(),
            real: REAL.to_vec(),
            stubbed: STUBBED.to_vec(),
            assumptions: vec![
                "a breach is visible natively only as an out-of-bounds unchecked access (std debug precondition checks abort the worker), a crash signal, heap-corruption abort, a double drop or a leak; other undefined behaviour needs the Miri batch (./check C10 miri)".into(),
                "safe panics of the crate after a crash and double-panic aborts are tolerated by the statement and are not alarms".into(),
                "sampling over states, operations and continuations; enumeration only over crash points".into(),
            ],
            fault_kinds: vec!["panic in Ord::cmp", "panic in Hash", "panic in Eq", "panic in Clone (item / priority)", "panic in predicate", "panic in priority setter", "panic in the source iterator of extend", "panic in the body of an iter_mut / drain loop", "panic in PartialEq of priorities", "mem::forget of an iter_mut guard", "mem::forget of a drain guard", "second fault in the continuation"],
            exhaustive_note: Some("crash points (callback class x index) are enumerated completely per (state, operation) up to index 64; nothing else is exhaustive".into()),
        }
    }
    fn runs(&self, tier: Tier) -> u64 {
        match tier {
            Tier::Quick => self.quick_runs,
            Tier::Thorough => self.thorough_runs,
        }
    }
    fn run_one(&self, seed: u64, idx: u64, tier: Tier, acc: &mut Acc) {
        let mut rng = Rng::new(mix(seed, idx) ^ 0xC10);
        let mut cfg = gen_cfg(&mut rng, C10, None);
        cfg.universe = cfg.universe.min(40);
        cfg.weights = prefix_weights();
        cfg.len = match rng.below(10) {
            0 => 0,
            1 => 1,
            2 => 2,
            3..=6 => 3 + rng.usize(8),
            _ => 8 + rng.usize(24),
        };
        if light() {
            cfg.len = cfg.len.min(6);
        }
        ledger_reset();
    crate::hashers::reset_instances();
        // 1. fault-free prefix
        crate::hashers::set_current(cfg.hasher);
        let mut g = Gen::new(rng);
        let mut q = construct(cfg.kind, cfg.ctor);
        let mut m = Model::default();
        let mut cx = Ctx::new(cfg.universe);
        cx.deep = false;
        let mut prefix = Vec::new();
        for _ in 0..cfg.len {
            let st = g.step(&m, q.kind(), &cfg);
            if guarded(|| exec(&mut q, &mut m, &st, &mut cx)).is_err() {
                acc.abandoned += 1;
                acc.runs += 1;
                return;
            }
            prefix.push(st);
        }
        acc.steps += prefix.len() as u64;
        let n = q.len();
        if n <= 10 {
            // distinct (pre-crash state, operation family) pairs, by state signature
            let c0 = q.contents();
            acc.states.insert(mix(state_sig(&q, &c0), 0));
        }
        // 2. the faulty operation
        let mut cfg_op = cfg.clone();
        cfg_op.weights = fault_op_weights();
        let op = g.step(&m, q.kind(), &cfg_op);
        acc.bump("fams", op.fam().name(), 1);
        // 3. dry run: how many callbacks of each class does it make on this state?
        let counts: Vec<u64> = {
            let mut c0 = q.clone();
            reset_counts();
            set_tick_limit(OP_TICK_LIMIT);
            let r = guarded(|| exec_raw(&mut c0, &op));
            disarm_all();
            let counts: Vec<u64> = ALL_CB.iter().map(|c| count(*c)).collect();
            let _ = guarded(move || drop(c0));
            if r.is_err() {
                acc.abandoned += 1;
                acc.runs += 1;
                return;
            }
            counts
        };
        let conts = if light() { 1 } else if tier == Tier::Quick { 2 } else { 3 };
        let cap = if light() { 5 } else { 64 };
        let is_leak = matches!(op.fam(), Fam::IterMutLeak | Fam::DrainLeak);
        let mut plans: Vec<Option<(Cb, u64)>> = Vec::new();
        if is_leak {
            plans.push(None);
        }
        for (ci, c) in ALL_CB.iter().enumerate() {
            let nc = counts[ci];
            for k in 0..nc.min(cap) {
                plans.push(Some((*c, k)));
            }
            if nc > cap {
                for _ in 0..(if light() { 1 } else { 8 }) {
                    plans.push(Some((*c, cap + g.rng.below(nc - cap))));
                }
            }
        }
        acc.bump("counters", "crash_points_enumerated", plans.len() as u64);
        acc.bump("counters", "state_op_pairs", 1);
        for plan in plans {
            for j in 0..conts {
                // post-crash state decides the steering, so crash a scout clone first (cheap)
                let fault = Armed { step: op.clone(), plan };
                let targets: Vec<u32> = {
                    let mut scout = q.clone();
                    let _ = run_armed(&mut scout, &fault);
                    let (_, dup, missing) = damage_of(&scout);
                    let t: Vec<u32> = guarded(|| [dup, missing].iter().flatten().filter_map(|i| scout.slot(*i).map(|x| x.0)).collect()).unwrap_or_default();
                    // the scout is dropped under guard; its leak (forgotten guards) is irrelevant:
                    // the ledger is compared before/after each real case only
                    let _ = guarded(move || drop(scout));
                    t
                };
                let cont = gen_cont(&mut g, &m, q.kind(), &cfg, &targets, j > 0);
                let body = CrashBody { cfg: cfg.clone(), prefix: prefix.clone(), fault: fault.clone(), cont: cont.clone() };
                self.track(&body);
                let qc = q.clone();
                let t0 = clock();
                let out = run_case_on(qc, &fault, &cont, "C10");
                acc.ticks += clock() - t0;
                acc.runs += 1;
                acc.steps += 1 + cont.len() as u64;
                if let Some(c) = out.fault_class {
                    if out.fired {
                        acc.bump("faults", &format!("panic_in_{}", c.name()), 1);
                    } else {
                        acc.bump("counters", "armed_fault_did_not_fire", 1);
                    }
                } else {
                    acc.bump("faults", if op.fam() == Fam::DrainLeak { "forget_drain_guard" } else { "forget_iter_mut_guard" }, 1);
                }
                if out.cont_second_faults > 0 {
                    acc.bump("faults", "second_fault_in_continuation", out.cont_second_faults);
                }
                for d in &out.damage {
                    acc.bump("probes", &format!("post_crash_{}", d), 1);
                }
                if out.damage.is_empty() {
                    acc.bump("probes", "post_crash_tables_consistent", 1);
                }
                if !targets.is_empty() {
                    acc.bump("probes", "continuation_steered_at_damage", 1);
                }
                acc.bump("counters", "safe_panics_in_continuations", out.cont_panics);
                acc.bump("counters", "tick_budget_hits", out.tick_budget_hits);
                let d = mix(mix(crate::hist::cfg_digest(&cfg), idx), mix(plan.map_or(999, |p| p.0 as u64 * 1000 + p.1), j as u64));
                acc.counters.insert("last_digest".into(), d);
                if (out.fired || plan.is_none()) && n >= 2 {
                    acc.nontrivial_runs += 1;
                    acc.digests.push(d);
                }
                if acc.samples.len() < 2 && out.fired && n >= 3 && n <= 6 && cont.len() <= 6 {
                    acc.samples.push(json!({"run": idx, "state_size": n, "prefix": prefix, "fault": fault, "continuation": cont, "post_crash_damage": out.damage, "outcome": "no breach"}));
                }
                if let Some(f) = out.fail {
                    acc.violations.push(Case { property: "C10".into(), seed, run: idx, body: serde_json::to_value(&body).unwrap(), fail: Some(f), minimised: false, original_steps: 0 });
                    let _ = guarded(move || drop(q));
                    return;
                }
            }
        }
        let _ = guarded(move || drop(q));
    }
    fn replay(&self, body: &serde_json::Value) -> Result<Option<FailRec>, String> {
        let b: CrashBody = serde_json::from_value(body.clone()).map_err(|e| e.to_string())?;
        ledger_reset();
    crate::hashers::reset_instances();
        let (q, _m) = build_state(&b.cfg, &b.prefix)?;
        if track_level() >= 2 {
            track_line(2, &format!("B {}", serde_json::to_string(&b).unwrap()));
        }
        let out = run_case_on(q, &b.fault, &b.cont, "C10");
        Ok(out.fail)
    }
    fn shrink_candidates(&self, body: &serde_json::Value, _fail: &FailRec) -> Vec<serde_json::Value> {
        let b: CrashBody = match serde_json::from_value(body.clone()) {
            Ok(b) => b,
            Err(_) => return Vec::new(),
        };
        let mut out: Vec<CrashBody> = Vec::new();
        // shorter continuation
        let n = b.cont.len();
        let mut chunk = (n + 1) / 2;
        while chunk >= 1 {
            let mut i = 0;
            while i + chunk <= n {
                let mut c = b.clone();
                c.cont.drain(i..i + chunk);
                out.push(c);
                i += chunk;
            }
            if chunk == 1 {
                break;
            }
            chunk /= 2;
        }
        // no second faults
        for i in 0..n {
            if b.cont[i].plan.is_some() {
                let mut c = b.clone();
                c.cont[i].plan = None;
                out.push(c);
            }
        }
        // shorter prefix
        let pn = b.prefix.len();
        let mut chunk = (pn + 1) / 2;
        while chunk >= 1 {
            let mut i = 0;
            while i + chunk <= pn {
                let mut c = b.clone();
                c.prefix.drain(i..i + chunk);
                out.push(c);
                i += chunk;
            }
            if chunk == 1 {
                break;
            }
            chunk /= 2;
        }
        // earlier crash index
        if let Some((c0, k)) = b.fault.plan {
            if k > 0 {
                let mut c = b.clone();
                c.fault.plan = Some((c0, k - 1));
                out.push(c);
                let mut c = b.clone();
                c.fault.plan = Some((c0, 0));
                out.push(c);
            }
        }
        // simpler steps
        for (cfg2, steps) in shrink_candidates(&b.cfg, &b.prefix, b.prefix.len()).into_iter().filter(|(_, s)| s.len() == b.prefix.len()) {
            let mut c = b.clone();
            c.cfg = cfg2;
            c.prefix = steps;
            out.push(c);
        }
        for s2 in simplify_step(&b.fault.step) {
            let mut c = b.clone();
            c.fault.step = s2;
            out.push(c);
        }
        for i in 0..b.cont.len() {
            for s2 in simplify_step(&b.cont[i].step) {
                let mut c = b.clone();
                c.cont[i].step = s2;
                out.push(c);
            }
        }
        out.into_iter().map(|c| serde_json::to_value(&c).unwrap()).collect()
    }
    fn hang_is_violation(&self) -> bool {
        // after an injected fault the statement promises memory safety only
        false
    }
    fn abort_is_violation(&self, _body: &serde_json::Value, class: &str) -> bool {
        class.starts_with("abort_unsafe") || class.starts_with("abort_heap") || class.starts_with("abort_signal")
    }
    fn size_of(&self, body: &serde_json::Value) -> usize {
        let p = body.get("prefix").and_then(|s| s.as_array()).map_or(0, |a| a.len());
        let c = body.get("cont").and_then(|s| s.as_array()).map_or(0, |a| a.len());
        p + c + 1
    }
}
