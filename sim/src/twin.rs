//! Twin engines: the same explicit history executed on several instances that differ in exactly
//! one respect — capacity management and allocation faults (C17), being a clone / having another
//! history (C14), the hasher (C18) — with the return-value traces compared step by step.

use crate::engines::{REAL, STUBBED};
use crate::exec::*;
use crate::hashers::{self, HasherKind};
use crate::hist::*;
use crate::model::Model;
use crate::orch::*;
use crate::queue::*;
use crate::rng::{mix, Rng};
use crate::steps::*;
use crate::types::*;
use serde::{Deserialize, Serialize};
use serde_json::json;

pub struct Inst {
    pub q: AnyQ,
    pub m: Model,
    pub cx: Ctx,
    pub n: u32,
}

impl Inst {
    pub fn new(cfg: &RunCfg, ctor: Ctor, hasher: HasherKind) -> Result<Inst, String> {
        hashers::set_current(hasher);
        let q = guarded(|| construct(cfg.kind, ctor)).map_err(|e| format!("constructor panicked: {:?}", e))?;
        Ok(Inst { q, m: Model::default(), cx: Ctx::new(cfg.universe), n: 0 })
    }
    /// one step with all oracles; Ok((exact, loose, failures)) or Err(panic text)
    pub fn step(&mut self, st: &Step, hasher: HasherKind) -> Result<(u64, u64, Vec<Fail>), String> {
        hashers::set_current(hasher);
        self.cx.step_no = self.n;
        self.n += 1;
        self.cx.fails.clear();
        self.cx.deep = self.q.len() <= 32;
        let (q, m, cx) = (&mut self.q, &mut self.m, &mut self.cx);
        match guarded(|| {
            exec(q, m, st, cx);
            post_check(q, m, st, cx);
        }) {
            Ok(()) => Ok((self.cx.exact, self.cx.loose, std::mem::take(&mut self.cx.fails))),
            Err(e) => {
                crate::alloc::end();
                Err(match e {
                    Caught::Other(m, l) => format!("{} @ {}", m, l),
                    o => format!("{:?}", o),
                })
            }
        }
    }
}

fn frec(prop: &str, class: &str, msg: String, step: usize) -> FailRec {
    FailRec { props: prop.into(), class: class.into(), msg, step }
}

fn body_digest<T: Serialize>(b: &T) -> u64 {
    serde_json::to_string(b).unwrap_or_default().bytes().fold(0xcbf2_9ce4_8422_2325u64, |h, x| (h ^ x as u64).wrapping_mul(0x100_0000_01b3))
}

/// Generate an explicit fault-free history by running it (adaptive generation needs the state).
pub fn gen_history(rng: Rng, cfg: &RunCfg, focus: u32) -> Option<Vec<Step>> {
    let r = run_hist(cfg, StepSrc::Gen(Gen::new(rng)), &HistOpts { focus, snapshot: false, trace: false, huge_hints: false, alloc_faults: false, amplify: false });
    // if the generating run itself diverges, the steps up to and including the diverging one
    // are still a perfectly good explicit history: the twin comparison decides what it means
    match r.end {
        RunEnd::Clean => Some(r.steps),
        _ if !r.steps.is_empty() => Some(r.steps),
        _ => None,
    }
}

fn no_capacity_steps(cfg: &mut RunCfg) {
    for f in [Fam::Reserve, Fam::TryReserve, Fam::Shrink, Fam::IterMutLeak] {
        cfg.weights[f as usize] = 0;
    }
}

// ------------------------------------------------------------------------------------------
// C17

#[derive(Clone, Debug, Serialize, Deserialize)]
pub struct CapBody {
    pub cfg: RunCfg,
    pub steps: Vec<Step>,
    /// capacity operations the second twin receives before step `.0`
    pub caps: Vec<(usize, Step)>,
    pub ctor_b: Ctor,
}

pub struct CapOut {
    pub fail: Option<FailRec>,
    pub alloc_faults_fired: u64,
    pub ok_after_fault: u64,
    pub err_after_fault: u64,
}

pub fn run_cap_case(b: &CapBody) -> Result<CapOut, String> {
    ledger_reset();
    crate::hashers::reset_instances();
    disarm_all();
    let h = b.cfg.hasher;
    let mut a = Inst::new(&b.cfg, b.cfg.ctor, h)?;
    let mut t = Inst::new(&b.cfg, b.ctor_b, h)?;
    let mut out = CapOut { fail: None, alloc_faults_fired: 0, ok_after_fault: 0, err_after_fault: 0 };
    // with_capacity(n): "able to hold at least n elements without reallocating"
    if let Ctor::WithCapacityAndHasher(n) | Ctor::WithCapacityAndDefaultHasher(n) = b.ctor_b {
        if t.q.capacity() < n {
            out.fail = Some(frec("C17", "with_capacity_too_small", format!("{:?}: capacity() = {} right after construction", b.ctor_b, t.q.capacity()), 0));
            return Ok(out);
        }
    }
    for (i, st) in b.steps.iter().enumerate() {
        for (_, cap) in b.caps.iter().filter(|c| c.0 == i) {
            let before = t.cx.probes.get("alloc_fault_fired").copied().unwrap_or(0);
            let okb = t.cx.probes.get("try_reserve_ok").copied().unwrap_or(0);
            match t.step(cap, h) {
                Err(p) => {
                    out.fail = Some(frec("C17", "capacity_op_panic", format!("{:?} panicked: {}", cap, p), i));
                    return Ok(out);
                }
                Ok((_, _, fails)) => {
                    if let Some(f) = fails.iter().find(|f| f.props & C17 != 0) {
                        out.fail = Some(frec("C17", f.class, format!("after {:?}: {}", cap, f.msg), i));
                        return Ok(out);
                    }
                    if fails.iter().any(|f| f.props & (C03 | C04) != 0) {
                        return Err("foreign divergence in the capacity twin".into());
                    }
                }
            }
            let fired = t.cx.probes.get("alloc_fault_fired").copied().unwrap_or(0) > before;
            if fired {
                out.alloc_faults_fired += 1;
                if t.cx.probes.get("try_reserve_ok").copied().unwrap_or(0) > okb {
                    out.ok_after_fault += 1;
                } else {
                    out.err_after_fault += 1;
                }
            }
        }
        let ra = a.step(st, h).map_err(|p| format!("reference twin panicked: {}", p))?;
        if ra.2.iter().any(|f| f.props & (C03 | C04 | C12) != 0) {
            return Err("foreign divergence in the reference twin".into());
        }
        match t.step(st, h) {
            Err(p) => {
                out.fail = Some(frec("C17", "capacity_changed_behaviour", format!("step {} ({:?}) panicked only on the twin that received capacity operations: {}", i, st, p), i));
                return Ok(out);
            }
            Ok(rt) => {
                if rt.0 != ra.0 {
                    out.fail = Some(frec("C17", "capacity_visible", format!("step {} ({:?}) returned different values on the twin that received capacity operations {:?}", i, st, b.caps.iter().filter(|c| c.0 <= i).map(|c| &c.1).collect::<Vec<_>>()), i));
                    return Ok(out);
                }
                if let Some(f) = rt.2.iter().find(|f| f.props & C17 != 0 || f.props & (C01 | C02 | C03) != 0) {
                    out.fail = Some(frec("C17", "capacity_broke_queue", format!("step {} on the twin that received capacity operations: [{}] {}", i, f.class, f.msg), i));
                    return Ok(out);
                }
            }
        }
    }
    Ok(out)
}

pub struct CapEngine {
    pub quick_runs: u64,
    pub thorough_runs: u64,
}

fn gen_cap(r: &mut Rng, n: usize) -> Step {
    match r.below(10) {
        0 => Step::Shrink,
        1 | 2 => Step::Reserve { n: *r.pick(&[0, 1, n, 1000, 7]), exact: r.chance(1, 2) },
        3 => Step::TryReserve { n: *r.pick(&[usize::MAX, usize::MAX / 16, isize::MAX as usize, 1 << 40, usize::MAX / 64, (1 << 30) / 8 + 1]), exact: r.chance(1, 2), fault: None },
        _ => Step::TryReserve { n: *r.pick(&[0, 1, n, 1000, 33, 300]), exact: r.chance(1, 2), fault: None },
    }
}

impl Engine for CapEngine {
    fn prop(&self) -> &'static str {
        "C17"
    }
    fn info(&self) -> EngineInfo {
        EngineInfo {
            level: "fault_enumeration",
            unit: "twin cases: one explicit history executed in lock-step on a queue that never receives capacity operations and on one that does (with_capacity, reserve, reserve_exact, try_reserve, try_reserve_exact, shrink_to_fit at seeded points, amounts 0/1/n/1000 and near usize::MAX), every return value compared",
            rule: "per history one insertion point is chosen for allocation-failure ENUMERATION: a dry run counts the allocations A the try_reserve*(m) makes on that state and every k < A is failed once (one-shot) and persistently (k and all later ones), each as its own twin case. Non-trivial = the second twin received at least one capacity operation on a queue of >= 2 elements; distinct = digest of the case".into(),
            real: REAL.to_vec(),
            stubbed: STUBBED.to_vec(),
            assumptions: vec!["allocation failure is injected only inside try_reserve* (a failing infallible allocation aborts by language rule)".into(), "IndexMap may legitimately recover from a one-shot failure by retrying with an exact reservation: Ok is accepted iff the capacity guarantee really holds".into(), "sampling over histories and insertion points; enumeration only over the allocation index".into()],
            fault_kinds: vec!["allocation failure at the k-th allocation (one-shot)", "allocation failure from the k-th allocation on (persistent)", "request above the simulated memory ceiling", "capacity overflow amounts"],
            exhaustive_note: Some("allocation points k < A of the chosen try_reserve call are enumerated completely, in both fault modes".into()),
        }
    }
    fn runs(&self, tier: Tier) -> u64 {
        match tier {
            Tier::Quick => self.quick_runs,
            Tier::Thorough => self.thorough_runs,
        }
    }
    fn run_one(&self, seed: u64, idx: u64, _tier: Tier, acc: &mut Acc) {
        let mut rng = Rng::new(mix(seed, idx) ^ 0xC17);
        let mut cfg = gen_cfg(&mut rng, C17, None);
        no_capacity_steps(&mut cfg);
        cfg.len = cfg.len.min(40);
        let mut r2 = Rng::new(rng.next());
        let steps = match gen_history(rng, &cfg, C17) {
            Some(s) => s,
            None => {
                acc.abandoned += 1;
                acc.runs += 1;
                return;
            }
        };
        let ctor_b = match r2.below(4) {
            0 if r2.chance(1, 40) => Ctor::WithCapacityAndHasher(50_000 + r2.usize(100_000)),
            0 => Ctor::WithCapacityAndHasher(r2.usize(200)),
            1 => Ctor::WithCapacityAndDefaultHasher(r2.usize(50)),
            _ => cfg.ctor,
        };
        let ncaps = 1 + r2.usize(5);
        let mut caps: Vec<(usize, Step)> = (0..ncaps).map(|_| (r2.usize(steps.len() + 1).min(steps.len().saturating_sub(1)), gen_cap(&mut r2, steps.len()))).collect();
        caps.sort_by_key(|c| c.0);
        // the enumerated allocation-failure point
        let at = r2.usize(steps.len().max(1));
        let m_amount = *r2.pick(&[1usize, 8, 64, 300, 1000, 5000]);
        let exact = r2.chance(1, 2);
        let base = CapBody { cfg: cfg.clone(), steps: steps.clone(), caps: caps.clone(), ctor_b };
        let mut bodies = vec![base.clone()];
        // dry run: allocations of try_reserve(m) on the state before step `at`
        let allocs = {
            ledger_reset();
    crate::hashers::reset_instances();
            let mut t = match Inst::new(&cfg, ctor_b, cfg.hasher) {
                Ok(t) => t,
                Err(_) => return,
            };
            let mut ok = true;
            for (i, st) in steps.iter().enumerate().take(at) {
                for (_, cap) in caps.iter().filter(|c| c.0 == i) {
                    ok &= t.step(cap, cfg.hasher).is_ok();
                }
                ok &= t.step(st, cfg.hasher).is_ok();
            }
            if !ok {
                0
            } else {
                let need = t.q.capacity().saturating_sub(t.q.len()) + m_amount;
                crate::alloc::begin(None, false);
                // (guarded: a panic of the crate here must surface through the ordinary cases below)
                let _ = guarded(|| if exact { t.q.try_reserve_exact(need).is_ok() } else { t.q.try_reserve(need).is_ok() });
                let (seen, _) = crate::alloc::end();
                acc.bump("counters", &format!("allocations_per_try_reserve_{}", seen.min(6)), 1);
                // remember the amount that forces growth
                bodies[0].caps.push((at, Step::TryReserve { n: need, exact, fault: None }));
                seen
            }
        };
        let need = match bodies[0].caps.last() {
            Some((_, Step::TryReserve { n, .. })) if allocs > 0 => *n,
            _ => 0,
        };
        bodies[0].caps.sort_by_key(|c| c.0);
        for k in 0..allocs.min(8) {
            for persistent in [false, true] {
                let mut b = base.clone();
                b.caps.push((at, Step::TryReserve { n: need, exact, fault: Some((k, persistent)) }));
                b.caps.sort_by_key(|c| c.0);
                bodies.push(b);
            }
        }
        acc.bump("counters", "alloc_failure_points_enumerated", 2 * allocs.min(8));
        for body in bodies {
            let d = body_digest(&body);
            acc.counters.insert("last_digest".into(), d);
            if track_level() >= 2 {
                track_line(2, &format!("B {}", serde_json::to_string(&body).unwrap()));
            }
            acc.runs += 1;
            acc.steps += (body.steps.len() * 2 + body.caps.len()) as u64;
            match run_cap_case(&body) {
                Err(e) => {
                    acc.abandoned += 1;
                    if acc.abandoned_samples.len() < 3 {
                        acc.abandoned_samples.push(format!("run {}: {}", idx, e));
                    }
                }
                Ok(out) => {
                    acc.bump("faults", "allocation_failure_fired", out.alloc_faults_fired);
                    acc.bump("probes", "try_reserve_ok_despite_injected_failure", out.ok_after_fault);
                    acc.bump("probes", "try_reserve_err_after_injected_failure", out.err_after_fault);
                    for (_, c) in &body.caps {
                        acc.bump("fams", c.fam().name(), 1);
                    }
                    if body.steps.len() >= 3 {
                        acc.nontrivial_runs += 1;
                        acc.digests.push(d);
                    }
                    if acc.samples.len() < 2 && body.steps.len() <= 8 && body.caps.iter().any(|c| matches!(c.1, Step::TryReserve { fault: Some(_), .. })) {
                        acc.samples.push(json!({"run": idx, "steps": body.steps, "capacity_ops_for_twin_b": body.caps, "ctor_b": body.ctor_b, "outcome": "identical traces"}));
                    }
                    if let Some(f) = out.fail {
                        acc.violations.push(Case { property: "C17".into(), seed, run: idx, body: serde_json::to_value(&body).unwrap(), fail: Some(f), minimised: false, original_steps: 0 });
                        return;
                    }
                }
            }
        }
    }
    fn replay(&self, body: &serde_json::Value) -> Result<Option<FailRec>, String> {
        let b: CapBody = serde_json::from_value(body.clone()).map_err(|e| e.to_string())?;
        Ok(run_cap_case(&b).map(|o| o.fail).unwrap_or(None))
    }
    fn shrink_candidates(&self, body: &serde_json::Value, fail: &FailRec) -> Vec<serde_json::Value> {
        let b: CapBody = match serde_json::from_value(body.clone()) {
            Ok(b) => b,
            Err(_) => return Vec::new(),
        };
        let mut out: Vec<CapBody> = Vec::new();
        // cut everything after the failing step
        if fail.step + 1 < b.steps.len() {
            let mut c = b.clone();
            c.steps.truncate(fail.step + 1);
            c.caps.retain(|x| x.0 <= fail.step);
            out.push(c);
        }
        for i in 0..b.caps.len() {
            let mut c = b.clone();
            c.caps.remove(i);
            out.push(c);
        }
        // drop single steps (capacity positions shift)
        for i in 0..b.steps.len() {
            let mut c = b.clone();
            c.steps.remove(i);
            for cap in c.caps.iter_mut() {
                if cap.0 > i {
                    cap.0 -= 1;
                }
            }
            let n = c.steps.len();
            c.caps.retain(|x| x.0 < n.max(1));
            out.push(c);
        }
        if b.ctor_b != b.cfg.ctor {
            let mut c = b.clone();
            c.ctor_b = b.cfg.ctor;
            out.push(c);
        }
        out.into_iter().map(|c| serde_json::to_value(&c).unwrap()).collect()
    }
    fn abort_is_violation(&self, _body: &serde_json::Value, class: &str) -> bool {
        class == "abort_alloc_failure" || class.starts_with("abort_unsafe") || class.starts_with("abort_heap") || class.starts_with("abort_signal")
    }
    fn size_of(&self, body: &serde_json::Value) -> usize {
        body.get("steps").and_then(|s| s.as_array()).map_or(0, |a| a.len()) + body.get("caps").and_then(|s| s.as_array()).map_or(0, |a| a.len())
    }
}

// ------------------------------------------------------------------------------------------
// C18

#[derive(Clone, Debug, Serialize, Deserialize)]
pub struct HashBody {
    pub cfg: RunCfg,
    pub steps: Vec<Step>,
    pub hashers: Vec<HasherKind>,
    pub ctors: Vec<Ctor>,
}

pub struct HashOut {
    pub fail: Option<FailRec>,
    pub tie_divergences: u64,
}

pub fn run_hash_case(b: &HashBody) -> Result<HashOut, String> {
    ledger_reset();
    crate::hashers::reset_instances();
    disarm_all();
    let mut out = HashOut { fail: None, tie_divergences: 0 };
    // per hasher: the trace of (exact, loose) digests and the first oracle failure / panic, if any
    struct Run {
        trace: Vec<(u64, u64)>,
        bad: Option<(usize, String)>,
    }
    let mut runs: Vec<Run> = Vec::new();
    for (hi, h) in b.hashers.iter().enumerate() {
        let ctor = b.ctors.get(hi).copied().unwrap_or(b.cfg.ctor);
        let mut run = Run { trace: Vec::new(), bad: None };
        match Inst::new(&b.cfg, ctor, *h) {
            Err(p) => run.bad = Some((0, format!("constructor {:?} panicked: {}", ctor, p))),
            Ok(mut inst) => {
                for st in &b.steps {
                    match inst.step(st, *h) {
                        Ok((e, l, fails)) => {
                            if let Some(f) = fails.iter().find(|f| f.props & (C01 | C02 | C03 | C04 | C12) != 0) {
                                run.bad = Some((run.trace.len(), format!("[{}] {}", f.class, f.msg)));
                                break;
                            }
                            run.trace.push((e, l));
                        }
                        Err(p) => {
                            run.bad = Some((run.trace.len(), format!("panicked: {}", p)));
                            break;
                        }
                    }
                }
            }
        }
        runs.push(run);
    }
    // behaviour that is right under one hasher and wrong under another depends on the hasher
    let good = runs.iter().position(|r| r.bad.is_none());
    let bad = runs.iter().position(|r| r.bad.is_some());
    match (good, bad) {
        (None, _) => return Err(format!("every hasher fails (not a hasher dependence): {}", runs[0].bad.as_ref().unwrap().1)),
        (Some(g), Some(x)) => {
            let (step, msg) = runs[x].bad.clone().unwrap();
            out.fail = Some(frec("C18", "hasher_dependent_behaviour", format!("under hasher {:?} step {} ({:?}) fails: {} — the same history passes under {:?}", b.hashers[x], step, b.steps.get(step), msg, b.hashers[g]), step));
            return Ok(out);
        }
        _ => {}
    }
    let t0 = &runs[0].trace;
    for (hi, r) in runs.iter().enumerate().skip(1) {
        for (i, (a, x)) in t0.iter().zip(r.trace.iter()).enumerate() {
            if a.1 != x.1 {
                out.fail = Some(frec("C18", "hasher_dependent_return", format!("step {} ({:?}) returns different values under hasher {:?} and under {:?}", i, b.steps[i], b.hashers[0], b.hashers[hi]), i));
                return Ok(out);
            }
            if a.0 != x.0 {
                // a different choice among equal priorities: allowed; the histories may
                // legitimately differ from here on
                out.tie_divergences += 1;
                break;
            }
        }
    }
    Ok(out)
}

pub struct HashEngine {
    pub quick_runs: u64,
    pub thorough_runs: u64,
}

impl Engine for HashEngine {
    fn prop(&self) -> &'static str {
        "C18"
    }
    fn info(&self) -> EngineInfo {
        EngineInfo {
            level: "exploration",
            unit: "one explicit history executed under 9 hasher configurations, traces of return values compared (modulo the choice among equal priorities)",
            rule: "hashers: 4 differently keyed SipHash states (stand-in for RandomState keys), the multiplicative no_std-style hasher through with_hasher and through with_default_hasher, the all-colliding hasher, a hasher whose hash_one is specialised to another function than build_hasher+hash+finish (as ahash's is), and the real RandomState (keys from the OS: the one deliberately uncontrolled input; the comparison is on behaviour which must not depend on it). Non-trivial = a history of >= 4 steps reaching >= 3 elements; distinct = digest of the history".into(),
            real: REAL.to_vec(),
            stubbed: STUBBED.to_vec(),
            assumptions: vec!["RandomState cannot be seeded from outside; a failure that appears only under it is replayed against fresh instances".into(), "sampling, not proof".into()],
            fault_kinds: vec!["hasher keys", "all-colliding hasher", "no_std-style hasher", "real RandomState"],
            exhaustive_note: None,
        }
    }
    fn runs(&self, tier: Tier) -> u64 {
        match tier {
            Tier::Quick => self.quick_runs,
            Tier::Thorough => self.thorough_runs,
        }
    }
    fn run_one(&self, seed: u64, idx: u64, _tier: Tier, acc: &mut Acc) {
        let mut rng = Rng::new(mix(seed, idx) ^ 0xC18);
        let mut cfg = gen_cfg(&mut rng, C18, None);
        cfg.universe = cfg.universe.min(64);
        cfg.len = cfg.len.min(60);
        cfg.hasher = HasherKind::Seeded(rng.next(), rng.next());
        cfg.weights[Fam::IterMutLeak as usize] = 0;
        let hashers = vec![cfg.hasher, HasherKind::Seeded(rng.next(), rng.next()), HasherKind::Seeded(0, 0), HasherKind::Seeded(u64::MAX, rng.next()), HasherKind::Mul, HasherKind::Mul, HasherKind::Collide, HasherKind::Random, HasherKind::Special];
        let ctors = vec![cfg.ctor, Ctor::WithHasher, Ctor::WithCapacityAndHasher(3), Ctor::Default, Ctor::WithHasher, Ctor::WithDefaultHasher, Ctor::WithHasher, Ctor::Default, Ctor::WithHasher];
        let steps = match gen_history(rng, &cfg, C18) {
            Some(s) => s,
            None => {
                acc.abandoned += 1;
                acc.runs += 1;
                return;
            }
        };
        let body = HashBody { cfg, steps, hashers, ctors };
        let d = body_digest(&body.steps) ^ idx;
        acc.counters.insert("last_digest".into(), body_digest(&body.steps));
        if track_level() >= 2 {
            track_line(2, &format!("B {}", serde_json::to_string(&body).unwrap()));
        }
        acc.runs += 1;
        acc.steps += (body.steps.len() * body.hashers.len()) as u64;
        match run_hash_case(&body) {
            Err(e) => {
                acc.abandoned += 1;
                if acc.abandoned_samples.len() < 3 {
                    acc.abandoned_samples.push(format!("run {}: {}", idx, e));
                }
            }
            Ok(out) => {
                for h in &body.hashers {
                    acc.bump("faults", match h {
                        HasherKind::Seeded(..) => "hasher_seeded_keys",
                        HasherKind::Mul => "hasher_multiplicative",
                        HasherKind::Collide => "hasher_all_colliding",
                        HasherKind::Random => "hasher_real_random_state",
                        HasherKind::Special => "hasher_with_specialised_hash_one",
                    }, 1);
                }
                acc.bump("counters", "tie_divergences", out.tie_divergences);
                if body.steps.len() >= 4 {
                    acc.nontrivial_runs += 1;
                    acc.digests.push(d);
                }
                if acc.samples.len() < 2 && body.steps.len() <= 8 && body.steps.len() >= 4 {
                    acc.samples.push(json!({"run": idx, "steps": body.steps, "hashers": body.hashers, "constructors": body.ctors, "outcome": "identical traces"}));
                }
                if let Some(f) = out.fail {
                    acc.violations.push(Case { property: "C18".into(), seed, run: idx, body: serde_json::to_value(&body).unwrap(), fail: Some(f), minimised: false, original_steps: 0 });
                }
            }
        }
    }
    fn replay(&self, body: &serde_json::Value) -> Result<Option<FailRec>, String> {
        let b: HashBody = serde_json::from_value(body.clone()).map_err(|e| e.to_string())?;
        // a failure that involves the uncontrolled RandomState is retried against fresh instances
        let tries = if b.hashers.contains(&HasherKind::Random) { 64 } else { 1 };
        for _ in 0..tries {
            if let Ok(HashOut { fail: Some(f), .. }) = run_hash_case(&b) {
                return Ok(Some(f));
            }
        }
        Ok(None)
    }
    fn shrink_candidates(&self, body: &serde_json::Value, fail: &FailRec) -> Vec<serde_json::Value> {
        let b: HashBody = match serde_json::from_value(body.clone()) {
            Ok(b) => b,
            Err(_) => return Vec::new(),
        };
        let mut out: Vec<HashBody> = Vec::new();
        if fail.step + 1 < b.steps.len() {
            let mut c = b.clone();
            c.steps.truncate(fail.step + 1);
            out.push(c);
        }
        for i in 1..b.hashers.len() {
            if b.hashers.len() > 2 {
                let mut c = b.clone();
                c.hashers.remove(i);
                if i < c.ctors.len() {
                    c.ctors.remove(i);
                }
                out.push(c);
            }
        }
        for (cfg2, steps) in shrink_candidates(&b.cfg, &b.steps, fail.step.min(b.steps.len().saturating_sub(1))) {
            if cfg2.hasher != b.cfg.hasher {
                continue;
            }
            let mut c = b.clone();
            c.steps = steps;
            out.push(c);
        }
        out.into_iter().map(|c| serde_json::to_value(&c).unwrap()).collect()
    }
    fn abort_is_violation(&self, _body: &serde_json::Value, class: &str) -> bool {
        class.starts_with("abort_unsafe") || class.starts_with("abort_heap") || class.starts_with("abort_signal")
    }
    fn size_of(&self, body: &serde_json::Value) -> usize {
        body.get("steps").and_then(|s| s.as_array()).map_or(0, |a| a.len()) + body.get("hashers").and_then(|s| s.as_array()).map_or(0, |a| a.len())
    }
}

// ------------------------------------------------------------------------------------------
// C14

#[derive(Clone, Debug, Serialize, Deserialize)]
pub struct CloneBody {
    pub cfg: RunCfg,
    pub steps: Vec<Step>,
    /// the clone is taken before step `at`
    pub at: usize,
    /// applied to the source only after the lock-step phase
    pub extra_a: Vec<Step>,
    /// applied to a second clone only
    pub extra_b: Vec<Step>,
    pub shuffle_seed: u64,
}

fn sorted_contents(q: &AnyQ) -> Vec<P3> {
    let mut v = q.contents();
    v.sort();
    v
}

pub fn run_clone_case(b: &CloneBody) -> Result<Option<FailRec>, String> {
    ledger_reset();
    crate::hashers::reset_instances();
    disarm_all();
    let h = b.cfg.hasher;
    let mut a = Inst::new(&b.cfg, b.cfg.ctor, h)?;
    let at = b.at.min(b.steps.len());
    for st in &b.steps[..at] {
        let r = a.step(st, h).map_err(|p| format!("source panicked: {}", p))?;
        if r.2.iter().any(|f| f.props & (C03 | C04 | C12) != 0) {
            return Err("foreign divergence".into());
        }
    }
    // the clone
    let cq = match guarded(|| a.q.clone()) {
        Ok(c) => c,
        Err(e) => return Ok(Some(frec("C14", "clone_panic", format!("clone panicked: {:?}", e), at))),
    };
    let eq = guarded(|| (cq.eq_q(&a.q), a.q.eq_q(&cq), a.q.eq_q(&a.q))).map_err(|e| format!("eq panicked: {:?}", e))?;
    if eq != (true, true, true) {
        return Ok(Some(frec("C14", "clone_not_equal", format!("clone == source: {}, source == clone: {}, source == source: {}", eq.0, eq.1, eq.2), at)));
    }
    if sorted_contents(&cq) != sorted_contents(&a.q) {
        return Ok(Some(frec("C14", "clone_contents", format!("clone holds {:?}, source holds {:?}", sorted_contents(&cq), sorted_contents(&a.q)), at)));
    }
    let mut c = Inst { q: cq, m: a.m.clone(), cx: Ctx::new(b.cfg.universe), n: a.n };
    c.cx.order_suspended = a.cx.order_suspended;
    // lock-step: identical behaviour, ties included
    for (i, st) in b.steps[at..].iter().enumerate() {
        let ra = a.step(st, h).map_err(|p| format!("source panicked: {}", p))?;
        if ra.2.iter().any(|f| f.props & (C03 | C04 | C12) != 0) {
            return Err("foreign divergence".into());
        }
        match c.step(st, h) {
            Err(p) => return Ok(Some(frec("C14", "clone_behaves_differently", format!("step {} ({:?}) panicked on the clone only: {}", at + i, st, p), at + i))),
            Ok(rc) => {
                if rc.0 != ra.0 {
                    return Ok(Some(frec("C14", "clone_behaves_differently", format!("step {} ({:?}) returned different values on the clone and on its source", at + i, st), at + i)));
                }
                if let Some(f) = rc.2.iter().find(|f| f.props & (C01 | C02 | C03 | C12 | C14) != 0) {
                    return Ok(Some(frec("C14", "clone_broken", format!("step {} on the clone: [{}] {}", at + i, f.class, f.msg), at + i)));
                }
            }
        }
    }
    // independence: mutate the source, the clone must not move; and the other way round
    let mut c2 = Inst { q: a.q.clone(), m: a.m.clone(), cx: Ctx::new(b.cfg.universe), n: a.n };
    c2.cx.order_suspended = a.cx.order_suspended;
    let frozen = sorted_contents(&c2.q);
    for st in &b.extra_a {
        if a.step(st, h).is_err() {
            return Err("extra step panicked".into());
        }
    }
    if sorted_contents(&c2.q) != frozen || c2.q.len() != frozen.len() {
        return Ok(Some(frec("C14", "clone_not_independent", format!("mutating the source with {:?} changed its clone: {:?} -> {:?}", b.extra_a, frozen, sorted_contents(&c2.q)), b.steps.len())));
    }
    let frozen_a = sorted_contents(&a.q);
    for st in &b.extra_b {
        match c2.step(st, h) {
            Err(_) => return Err("extra step panicked".into()),
            Ok(r) => {
                if let Some(f) = r.2.iter().find(|f| f.props & (C03 | C12) != 0) {
                    return Ok(Some(frec("C14", "clone_not_independent", format!("after mutating its source, the clone misbehaves: [{}] {}", f.class, f.msg), b.steps.len())));
                }
            }
        }
    }
    if sorted_contents(&a.q) != frozen_a {
        return Ok(Some(frec("C14", "clone_not_independent", format!("mutating the clone with {:?} changed its source", b.extra_b), b.steps.len())));
    }
    // equality across histories: same contents built another way, other capacity, other hasher
    let target = a.q.contents();
    let mut r = Rng::new(b.shuffle_seed);
    let mut order: Vec<P3> = target.clone();
    r.shuffle(&mut order);
    let h2 = match r.below(4) {
        0 => HasherKind::Mul,
        1 => HasherKind::Collide,
        2 => HasherKind::Random,
        3 if r.chance(1, 2) => HasherKind::Special,
        _ => HasherKind::Seeded(r.next(), r.next()),
    };
    hashers::set_current(h2);
    let mut o = construct(a.q.kind(), if r.chance(1, 2) { Ctor::WithCapacityAndHasher(r.usize(100)) } else { Ctor::WithHasher });
    let res = guarded(|| {
        for (i, (k, p, pl)) in order.iter().enumerate() {
            // temporary items, priorities reached through several updates
            if i % 3 == 0 {
                o.push(Key::new(0x7000_0000 + i as u32, 0), Prio::new(*p));
            }
            match i % 4 {
                0 => {
                    o.push(Key::new(*k, *pl), Prio::new(p.wrapping_add(7)));
                    o.change_priority_borrowed(&KeyId(*k), Prio::new(*p));
                }
                1 => {
                    o.push(Key::new(*k, *pl), Prio::new(i32::MIN));
                    o.push_increase(Key::new(*k, 0), Prio::new(*p));
                }
                _ => {
                    o.push(Key::new(*k, *pl), Prio::new(*p));
                }
            }
        }
        for i in 0..order.len() {
            if i % 3 == 0 {
                o.remove_borrowed(&KeyId(0x7000_0000 + i as u32));
            }
        }
        if r.chance(1, 2) {
            o.shrink_to_fit();
        }
    });
    if res.is_err() {
        return Err("building the second history panicked".into());
    }
    let e = guarded(|| (o.eq_q(&a.q), a.q.eq_q(&o))).map_err(|e| format!("eq panicked: {:?}", e))?;
    if e != (true, true) {
        return Ok(Some(frec("C14", "eq_history_dependent", format!("two queues holding the same {} pairs through different histories (hasher {:?} vs {:?}) compare o==a: {}, a==o: {}", target.len(), h2, h, e.0, e.1), b.steps.len())));
    }
    // transitivity with a third arrangement
    let t3 = o.clone();
    let e3 = guarded(|| (t3.eq_q(&o), t3.eq_q(&a.q))).map_err(|e| format!("eq panicked: {:?}", e))?;
    if e3 != (true, true) {
        return Ok(Some(frec("C14", "eq_not_transitive", format!("x == y and y == z but x == z is {}", e3.1), b.steps.len())));
    }
    // clone_from onto a queue that already compares equal but is arranged differently must still
    // produce a true clone: same extraction sequence as the source, ties included
    {
        let mut d = o.clone();
        d.clone_from_q(&a.q);
        let mut s2 = a.q.clone();
        let same = guarded(|| {
            let mut ok = true;
            let mut i = 0u64;
            loop {
                let e = if i % 2 == 0 { End::Max } else { End::Min };
                i += 1;
                let x = d.pop(e).map(|(k, p)| (k.id(), p.v));
                let y = s2.pop(e).map(|(k, p)| (k.id(), p.v));
                if x != y {
                    ok = false;
                    break;
                }
                if x.is_none() {
                    break;
                }
            }
            ok
        })
        .unwrap_or(false);
        if !same {
            return Ok(Some(frec("C14", "clone_from_behaves_differently", "dst.clone_from(&src) onto a dst that already compared equal to src (other history): dst and src then extract their elements in different orders".into(), b.steps.len())));
        }
    }
    // neighbours: one priority different / one item different => unequal, both directions
    if let Some(first) = order.first() {
        let mut n1 = o.clone();
        n1.change_priority_borrowed(&KeyId(first.0), Prio::new(first.1.wrapping_add(1)));
        let mut n2 = o.clone();
        n2.remove_borrowed(&KeyId(first.0));
        let mut n3 = n2.clone();
        n3.push(Key::new(0x7fff_fff0, 0), Prio::new(first.1));
        let ne = guarded(|| [n1.eq_q(&a.q), a.q.eq_q(&n1), n2.eq_q(&a.q), a.q.eq_q(&n2), n3.eq_q(&a.q), a.q.eq_q(&n3)]).map_err(|e| format!("eq panicked: {:?}", e))?;
        if ne.iter().any(|x| *x) {
            return Ok(Some(frec("C14", "eq_too_coarse", format!("queues differing in one priority / one item compare equal: {:?}", ne), b.steps.len())));
        }
    }
    Ok(None)
}

pub struct CloneEngine {
    pub quick_runs: u64,
    pub thorough_runs: u64,
}

impl Engine for CloneEngine {
    fn prop(&self) -> &'static str {
        "C14"
    }
    fn info(&self) -> EngineInfo {
        EngineInfo {
            level: "exploration",
            unit: "twin cases: a history, a clone taken at a seeded point, lock-step continuation on both, divergent continuations on each, then a second queue with the same contents built through another history, capacity and hasher",
            rule: "non-trivial = the clone is taken from a queue of >= 2 elements and at least 2 steps run in lock-step; distinct = digest of the case".into(),
            real: REAL.to_vec(),
            stubbed: STUBBED.to_vec(),
            assumptions: vec!["'behaves identically' is read as identical return values including the choice among equal priorities, as the statement says".into(), "sampling, not proof".into()],
            fault_kinds: vec!["hasher choice for the second history", "capacity differences"],
            exhaustive_note: None,
        }
    }
    fn runs(&self, tier: Tier) -> u64 {
        match tier {
            Tier::Quick => self.quick_runs,
            Tier::Thorough => self.thorough_runs,
        }
    }
    fn run_one(&self, seed: u64, idx: u64, _tier: Tier, acc: &mut Acc) {
        let mut rng = Rng::new(mix(seed, idx) ^ 0xC14);
        let mut cfg = gen_cfg(&mut rng, C14, None);
        cfg.len = cfg.len.min(50);
        cfg.weights[Fam::IterMutLeak as usize] = 0;
        let mut r2 = Rng::new(rng.next());
        let steps = match gen_history(rng, &cfg, C14) {
            Some(s) => s,
            None => {
                acc.abandoned += 1;
                acc.runs += 1;
                return;
            }
        };
        let at = r2.usize(steps.len() + 1);
        // divergent continuations: generated against an empty model (keys are explicit anyway)
        let mut g = Gen::new(Rng::new(r2.next()));
        let m0 = Model::default();
        let mut cfg_x = cfg.clone();
        cfg_x.weights = base_weights();
        for f in [Fam::IterMutLeak, Fam::Reserve, Fam::TryReserve] {
            cfg_x.weights[f as usize] = 0;
        }
        let extra_a: Vec<Step> = (0..1 + r2.usize(6)).map(|_| g.step(&m0, cfg.kind, &cfg_x)).collect();
        let extra_b: Vec<Step> = (0..1 + r2.usize(6)).map(|_| g.step(&m0, cfg.kind, &cfg_x)).collect();
        let body = CloneBody { cfg, steps, at, extra_a, extra_b, shuffle_seed: r2.next() };
        let d = body_digest(&body);
        acc.counters.insert("last_digest".into(), d);
        if track_level() >= 2 {
            track_line(2, &format!("B {}", serde_json::to_string(&body).unwrap()));
        }
        acc.runs += 1;
        acc.steps += (2 * body.steps.len() + body.extra_a.len() + body.extra_b.len()) as u64;
        match run_clone_case(&body) {
            Err(e) => {
                acc.abandoned += 1;
                if acc.abandoned_samples.len() < 3 {
                    acc.abandoned_samples.push(format!("run {}: {}", idx, e));
                }
            }
            Ok(f) => {
                if body.steps.len() - body.at.min(body.steps.len()) >= 2 && body.at >= 2 {
                    acc.nontrivial_runs += 1;
                    acc.digests.push(d);
                }
                if acc.samples.len() < 2 && body.steps.len() <= 8 && body.at >= 2 {
                    acc.samples.push(json!({"run": idx, "steps": body.steps, "clone_taken_before_step": body.at, "extra_on_source": body.extra_a, "extra_on_clone": body.extra_b, "outcome": "identical traces, independent"}));
                }
                if let Some(f) = f {
                    acc.violations.push(Case { property: "C14".into(), seed, run: idx, body: serde_json::to_value(&body).unwrap(), fail: Some(f), minimised: false, original_steps: 0 });
                }
            }
        }
    }
    fn replay(&self, body: &serde_json::Value) -> Result<Option<FailRec>, String> {
        let b: CloneBody = serde_json::from_value(body.clone()).map_err(|e| e.to_string())?;
        Ok(run_clone_case(&b).unwrap_or(None))
    }
    fn shrink_candidates(&self, body: &serde_json::Value, fail: &FailRec) -> Vec<serde_json::Value> {
        let b: CloneBody = match serde_json::from_value(body.clone()) {
            Ok(b) => b,
            Err(_) => return Vec::new(),
        };
        let mut out: Vec<CloneBody> = Vec::new();
        if fail.step + 1 < b.steps.len() {
            let mut c = b.clone();
            c.steps.truncate(fail.step + 1);
            out.push(c);
        }
        for i in 0..b.steps.len() {
            let mut c = b.clone();
            c.steps.remove(i);
            if i < c.at {
                c.at -= 1;
            }
            out.push(c);
        }
        for i in 0..b.extra_a.len() {
            let mut c = b.clone();
            c.extra_a.remove(i);
            out.push(c);
        }
        for i in 0..b.extra_b.len() {
            let mut c = b.clone();
            c.extra_b.remove(i);
            out.push(c);
        }
        if b.at > 0 {
            let mut c = b.clone();
            c.at -= 1;
            out.push(c);
        }
        out.into_iter().map(|c| serde_json::to_value(&c).unwrap()).collect()
    }
    fn abort_is_violation(&self, _body: &serde_json::Value, class: &str) -> bool {
        class.starts_with("abort_unsafe") || class.starts_with("abort_heap") || class.starts_with("abort_signal")
    }
    fn size_of(&self, body: &serde_json::Value) -> usize {
        let f = |k: &str| body.get(k).and_then(|s| s.as_array()).map_or(0, |a| a.len());
        f("steps") + f("extra_a") + f("extra_b")
    }
}

// ------------------------------------------------------------------------------------------
// C16: after drain()/clear() the queue must behave like a fresh one

#[derive(Clone, Debug, Serialize, Deserialize)]
pub struct FreshBody {
    pub cfg: RunCfg,
    pub steps: Vec<Step>,
    /// index of the Drain / Clear step after which a fresh twin joins
    pub at: usize,
}

pub fn run_fresh_case(b: &FreshBody) -> Result<Option<FailRec>, String> {
    ledger_reset();
    crate::hashers::reset_instances();
    disarm_all();
    let h = b.cfg.hasher;
    let mut a = Inst::new(&b.cfg, b.cfg.ctor, h)?;
    let at = b.at.min(b.steps.len().saturating_sub(1));
    for (i, st) in b.steps.iter().enumerate().take(at + 1) {
        match a.step(st, h) {
            Err(p) => {
                if i == at {
                    return Ok(Some(frec("C16", "drain_panic", format!("{:?} panicked: {}", st, p), i)));
                }
                return Err(format!("prefix panicked: {}", p));
            }
            Ok(r) => {
                if i == at {
                    if let Some(f) = r.2.iter().find(|f| f.props & C16 != 0) {
                        return Ok(Some(frec("C16", f.class, format!("after {:?}: {}", st, f.msg), i)));
                    }
                } else if r.2.iter().any(|f| f.props & (C03 | C04 | C12) != 0) {
                    return Err("foreign divergence in the prefix".into());
                }
            }
        }
    }
    if !matches!(b.steps.get(at), Some(Step::Drain { .. }) | Some(Step::Clear)) {
        return Err("step `at` is neither drain nor clear".into());
    }
    // the emptied queue and a really fresh one, in lock-step
    let mut f = Inst::new(&b.cfg, Ctor::WithHasher, h)?;
    if f.q.kind() != a.q.kind() {
        let old = std::mem::replace(&mut f.q, construct(a.q.kind(), Ctor::WithHasher));
        drop(old);
    }
    f.n = a.n;
    for (i, st) in b.steps.iter().enumerate().skip(at + 1) {
        let rf = match f.step(st, h) {
            Ok(r) => r,
            Err(_) => return Err("the fresh twin panicked".into()),
        };
        if rf.2.iter().any(|x| x.props & (C03 | C04 | C12) != 0) {
            return Err("foreign divergence in the fresh twin".into());
        }
        match a.step(st, h) {
            Err(p) => return Ok(Some(frec("C16", "emptied_queue_differs_from_fresh", format!("step {} ({:?}) panicked on the queue that had been emptied by {:?} but not on a fresh queue: {}", i, st, b.steps[at], p), i))),
            Ok(ra) => {
                if ra.0 != rf.0 {
                    return Ok(Some(frec("C16", "emptied_queue_differs_from_fresh", format!("step {} ({:?}) returned different values on the queue emptied by {:?} and on a fresh queue", i, st, b.steps[at]), i)));
                }
                if let Some(x) = ra.2.iter().find(|x| !rf.2.iter().any(|y| y.class == x.class)) {
                    return Ok(Some(frec("C16", "emptied_queue_differs_from_fresh", format!("step {} ({:?}) on the queue emptied by {:?}: [{}] {} — the fresh queue passes", i, st, b.steps[at], x.class, x.msg), i)));
                }
            }
        }
    }
    Ok(None)
}

pub struct FreshEngine {
    pub quick_runs: u64,
    pub thorough_runs: u64,
}

impl Engine for FreshEngine {
    fn prop(&self) -> &'static str {
        "C16"
    }
    fn info(&self) -> EngineInfo {
        EngineInfo {
            level: "exploration",
            unit: "twin cases: a history with a drain (any consumption program, dropped or leaked) or clear at a seeded point; from there on a really fresh queue runs the remaining steps in lock-step and every return value is compared",
            rule: "non-trivial = the drained queue held >= 2 elements and at least 3 steps follow the drain; distinct = digest of the case".into(),
            real: REAL.to_vec(),
            stubbed: STUBBED.to_vec(),
            assumptions: vec!["'behaves like a fresh queue' is decided differentially against a fresh queue, so an unrelated defect cannot raise a C16 alarm".into(), "sampling, not proof".into()],
            fault_kinds: vec!["guard abandonment (drop after an arbitrary prefix)", "guard leak (mem::forget of the drain guard)"],
            exhaustive_note: None,
        }
    }
    fn runs(&self, tier: Tier) -> u64 {
        match tier {
            Tier::Quick => self.quick_runs,
            Tier::Thorough => self.thorough_runs,
        }
    }
    fn run_one(&self, seed: u64, idx: u64, _tier: Tier, acc: &mut Acc) {
        let mut rng = Rng::new(mix(seed, idx) ^ 0xC16);
        let mut cfg = gen_cfg(&mut rng, C16, None);
        cfg.len = cfg.len.min(60).max(6);
        cfg.weights[Fam::IterMutLeak as usize] = 0;
        let steps = match gen_history(rng, &cfg, C16) {
            Some(s) => s,
            None => {
                acc.abandoned += 1;
                acc.runs += 1;
                return;
            }
        };
        let ats: Vec<usize> = steps.iter().enumerate().filter(|(_, s)| matches!(s, Step::Drain { .. } | Step::Clear)).map(|(i, _)| i).collect();
        if ats.is_empty() {
            acc.runs += 1;
            acc.bump("counters", "histories_without_drain_or_clear", 1);
            return;
        }
        for at in ats.into_iter().take(3) {
            acc.runs += 1;
            let body = FreshBody { cfg: cfg.clone(), steps: steps.clone(), at };
            let d = body_digest(&body);
            acc.counters.insert("last_digest".into(), d);
            if track_level() >= 2 {
                track_line(2, &format!("B {}", serde_json::to_string(&body).unwrap()));
            }
            acc.steps += (2 * (steps.len() - at) + at) as u64;
            match run_fresh_case(&body) {
                Err(e) => {
                    acc.abandoned += 1;
                    if acc.abandoned_samples.len() < 3 {
                        acc.abandoned_samples.push(format!("run {}: {}", idx, e));
                    }
                }
                Ok(f) => {
                    acc.bump("fams", body.steps[at].fam().name(), 1);
                    if steps.len() - at > 3 {
                        acc.nontrivial_runs += 1;
                        acc.digests.push(d);
                    }
                    if acc.samples.len() < 2 && steps.len() <= 10 && steps.len() - at > 3 {
                        acc.samples.push(json!({"run": idx, "steps": body.steps, "fresh_twin_joins_after_step": at, "outcome": "identical traces"}));
                    }
                    if let Some(f) = f {
                        acc.violations.push(Case { property: "C16".into(), seed, run: idx, body: serde_json::to_value(&body).unwrap(), fail: Some(f), minimised: false, original_steps: 0 });
                        return;
                    }
                }
            }
        }
    }
    fn replay(&self, body: &serde_json::Value) -> Result<Option<FailRec>, String> {
        let b: FreshBody = serde_json::from_value(body.clone()).map_err(|e| e.to_string())?;
        Ok(run_fresh_case(&b).unwrap_or(None))
    }
    fn shrink_candidates(&self, body: &serde_json::Value, fail: &FailRec) -> Vec<serde_json::Value> {
        let b: FreshBody = match serde_json::from_value(body.clone()) {
            Ok(b) => b,
            Err(_) => return Vec::new(),
        };
        let mut out: Vec<FreshBody> = Vec::new();
        if fail.step + 1 < b.steps.len() {
            let mut c = b.clone();
            c.steps.truncate(fail.step + 1);
            out.push(c);
        }
        for i in 0..b.steps.len() {
            if i == b.at {
                continue;
            }
            let mut c = b.clone();
            c.steps.remove(i);
            if i < c.at {
                c.at -= 1;
            }
            out.push(c);
        }
        for (i, st) in b.steps.iter().enumerate() {
            for s2 in simplify_step(st) {
                let mut c = b.clone();
                c.steps[i] = s2;
                out.push(c);
            }
        }
        out.into_iter().map(|c| serde_json::to_value(&c).unwrap()).collect()
    }
    fn abort_is_violation(&self, _body: &serde_json::Value, class: &str) -> bool {
        class.starts_with("abort_unsafe") || class.starts_with("abort_heap") || class.starts_with("abort_signal")
    }
    fn size_of(&self, body: &serde_json::Value) -> usize {
        body.get("steps").and_then(|s| s.as_array()).map_or(0, |a| a.len())
    }
}

// ------------------------------------------------------------------------------------------
// Latent damage: after an operation of the property's families the queue must go on behaving
// like a queue freshly built from the same contents. Attribution is differential: a later
// failure counts against the property only if the freshly built twin does not fail there too.

#[derive(Clone, Debug, Serialize, Deserialize)]
pub struct LatentBody {
    pub cfg: RunCfg,
    pub steps: Vec<Step>,
    /// index of the operation under scrutiny
    pub at: usize,
}

fn serious(f: &Fail) -> bool {
    f.props & (C01 | C02 | C03 | C12) != 0 || (f.props & C04 != 0 && !f.class.starts_with("tables"))
}

pub fn run_latent_case(b: &LatentBody, prop: &str, focus: u32) -> Result<Option<FailRec>, String> {
    ledger_reset();
    crate::hashers::reset_instances();
    disarm_all();
    let h = b.cfg.hasher;
    let mut a = Inst::new(&b.cfg, b.cfg.ctor, h)?;
    let at = b.at.min(b.steps.len().saturating_sub(1));
    for (i, st) in b.steps.iter().enumerate().take(at + 1) {
        match a.step(st, h) {
            Err(p) => {
                if i == at {
                    // a panic of the operation itself is the history check's business
                    return Err(format!("the operation itself panicked: {}", p));
                }
                return Err(format!("prefix panicked: {}", p));
            }
            Ok(r) => {
                if i == at {
                    if let Some(f) = r.2.iter().find(|f| f.props & focus != 0) {
                        return Ok(Some(frec(prop, f.class, format!("after {:?}: {}", st, f.msg), i)));
                    }
                }
                if r.2.iter().any(serious) {
                    return Err("foreign divergence before the comparison starts".into());
                }
            }
        }
    }
    if a.cx.order_suspended {
        return Err("order suspended (leaked guard)".into());
    }
    // the twin: a fresh queue holding the same contents, built by plain pushes
    let mut f = Inst::new(&b.cfg, Ctor::WithHasher, h)?;
    if f.q.kind() != a.q.kind() {
        f.q = construct(a.q.kind(), Ctor::WithHasher);
    }
    for (k, p, pl) in a.q.contents() {
        f.q.push(Key::new(k, pl), Prio::new(p));
    }
    f.m = a.m.clone();
    f.n = a.n;
    for (i, st) in b.steps.iter().enumerate().skip(at + 1) {
        let rf = f.step(st, h);
        let ra = a.step(st, h);
        let f_bad = match &rf {
            Err(_) => true,
            Ok(r) => r.2.iter().any(serious),
        };
        let a_bad: Option<String> = match &ra {
            Err(p) => Some(format!("panicked: {}", p)),
            Ok(r) => r.2.iter().find(|x| serious(x)).map(|x| format!("[{}] {}", x.class, x.msg)),
        };
        match (a_bad, f_bad) {
            (Some(msg), false) => {
                return Ok(Some(frec(prop, "latent_damage", format!("step {} ({:?}) fails on the queue left by step {} ({:?}) but not on a queue freshly built from the same contents: {}", i, st, at, b.steps[at], msg), i)));
            }
            (Some(_), true) | (None, true) => return Err("the freshly built twin fails too: not attributable".into()),
            (None, false) => {}
        }
    }
    Ok(None)
}

pub struct LatentEngine {
    pub prop: &'static str,
    pub focus: u32,
    pub fams: Vec<Fam>,
    pub quick_runs: u64,
    pub thorough_runs: u64,
}

impl Engine for LatentEngine {
    fn prop(&self) -> &'static str {
        self.prop
    }
    fn info(&self) -> EngineInfo {
        let names: Vec<&str> = self.fams.iter().map(|f| f.name()).collect();
        EngineInfo {
            level: "exploration",
            unit: "twin cases: a history containing an operation of the property at a seeded point; from there on a queue freshly built from the same contents runs the remaining steps too, and a failure of any behavioural oracle on the real queue that the fresh one does not share is attributed to that operation",
            rule: format!("operations under scrutiny: {{{}}}; up to 3 per history. Non-trivial = at least 3 steps follow the operation on a queue of >= 2 elements; distinct = digest of the case", names.join(", ")),
            real: REAL.to_vec(),
            stubbed: STUBBED.to_vec(),
            assumptions: vec!["differential attribution: an unrelated defect fails on both twins and is not reported against this property".into(), "sampling, not proof".into()],
            fault_kinds: vec![],
            exhaustive_note: None,
        }
    }
    fn runs(&self, tier: Tier) -> u64 {
        match tier {
            Tier::Quick => self.quick_runs,
            Tier::Thorough => self.thorough_runs,
        }
    }
    fn run_one(&self, seed: u64, idx: u64, _tier: Tier, acc: &mut Acc) {
        let mut rng = Rng::new(mix(seed, idx) ^ 0x1A7E ^ (self.focus as u64) << 20);
        let mut cfg = gen_cfg(&mut rng, self.focus, None);
        cfg.len = cfg.len.min(50).max(6);
        cfg.weights[Fam::IterMutLeak as usize] = 0;
        let steps = match gen_history(rng, &cfg, self.focus) {
            Some(s) => s,
            None => {
                acc.abandoned += 1;
                acc.runs += 1;
                return;
            }
        };
        let ats: Vec<usize> = steps.iter().enumerate().filter(|(_, s)| self.fams.contains(&s.fam())).map(|(i, _)| i).collect();
        if ats.is_empty() {
            acc.runs += 1;
            acc.bump("counters", "histories_without_an_operation_of_the_property", 1);
            return;
        }
        // prefer operations with something after them
        for at in ats.into_iter().filter(|a| a + 1 < steps.len()).take(3) {
            acc.runs += 1;
            let body = LatentBody { cfg: cfg.clone(), steps: steps.clone(), at };
            let d = body_digest(&body);
            acc.counters.insert("last_digest".into(), d);
            if track_level() >= 2 {
                track_line(2, &format!("B {}", serde_json::to_string(&body).unwrap()));
            }
            acc.steps += (2 * (steps.len() - at) + at) as u64;
            match run_latent_case(&body, self.prop, self.focus) {
                Err(e) => {
                    acc.bump("counters", "not_comparable", 1);
                    if acc.abandoned_samples.len() < 3 && !e.contains("suspended") {
                        acc.abandoned_samples.push(format!("run {} (not comparable, not a run lost): {}", idx, e));
                    }
                }
                Ok(f) => {
                    acc.bump("fams", body.steps[at].fam().name(), 1);
                    if steps.len() - at > 3 {
                        acc.nontrivial_runs += 1;
                        acc.digests.push(d);
                    }
                    if acc.samples.len() < 2 && steps.len() <= 10 && steps.len() - at > 3 {
                        acc.samples.push(json!({"run": idx, "steps": body.steps, "operation_under_scrutiny": at, "outcome": "no latent damage"}));
                    }
                    if let Some(f) = f {
                        acc.violations.push(Case { property: self.prop.into(), seed, run: idx, body: serde_json::to_value(&body).unwrap(), fail: Some(f), minimised: false, original_steps: 0 });
                        return;
                    }
                }
            }
        }
    }
    fn replay(&self, body: &serde_json::Value) -> Result<Option<FailRec>, String> {
        let b: LatentBody = serde_json::from_value(body.clone()).map_err(|e| e.to_string())?;
        Ok(run_latent_case(&b, self.prop, self.focus).unwrap_or(None))
    }
    fn shrink_candidates(&self, body: &serde_json::Value, fail: &FailRec) -> Vec<serde_json::Value> {
        let b: LatentBody = match serde_json::from_value(body.clone()) {
            Ok(b) => b,
            Err(_) => return Vec::new(),
        };
        let mut out: Vec<LatentBody> = Vec::new();
        if fail.step + 1 < b.steps.len() {
            let mut c = b.clone();
            c.steps.truncate(fail.step + 1);
            out.push(c);
        }
        for i in 0..b.steps.len() {
            if i == b.at {
                continue;
            }
            let mut c = b.clone();
            c.steps.remove(i);
            if i < c.at {
                c.at -= 1;
            }
            out.push(c);
        }
        for (i, st) in b.steps.iter().enumerate() {
            for s2 in simplify_step(st) {
                if i == b.at && s2.fam() != st.fam() {
                    continue;
                }
                let mut c = b.clone();
                c.steps[i] = s2;
                out.push(c);
            }
        }
        out.into_iter().map(|c| serde_json::to_value(&c).unwrap()).collect()
    }
    fn abort_is_violation(&self, _body: &serde_json::Value, _class: &str) -> bool {
        false
    }
    fn size_of(&self, body: &serde_json::Value) -> usize {
        body.get("steps").and_then(|s| s.as_array()).map_or(0, |a| a.len())
    }
}
