//! C07 (S3 seam): the same (receiver state, pair sequence) is fed to `extend` / `FromIterator`
//! under every class of legal `size_hint` report. No report may make them panic or abort, the
//! outcome (contents including item values) must be identical across reports, match the model
//! on priorities (last wins), and be a correctly ordered queue.

use crate::engines::{REAL, STUBBED};
use crate::exec::*;
use crate::hist::*;
use crate::model::Model;
use crate::orch::*;
use crate::queue::*;
use crate::rng::{mix, Rng};
use crate::sources::HintedSource;
use crate::steps::*;
use crate::types::*;
use serde::{Deserialize, Serialize};
use serde_json::json;

#[derive(Clone, Debug, Serialize, Deserialize)]
pub struct HintBody {
    pub cfg: RunCfg,
    pub prefix: Vec<Step>,
    pub pairs: Vec<P3>,
    /// true: `collect()` of (contents ++ pairs); false: `extend(pairs)` on the state
    pub from_iter: bool,
    pub hints: Vec<Hint>,
}

pub fn all_hints(rng: &mut Rng, include_2_20: bool) -> Vec<Hint> {
    let mut v = vec![
        Hint::Exact,
        Hint::ZeroNone,
        Hint::ZeroUpper,
        Hint::LowNone,
        Hint::Loose { sub: 0, extra: 1 },
        Hint::Loose { sub: 1, extra: 17 },
        Hint::Loose { sub: 1000, extra: 17 + rng.usize(30) },
        Hint::Loose { sub: rng.usize(3), extra: 1000 },
        Hint::Loose { sub: 1, extra: 1 << 40 },
        Hint::Loose { sub: 0, extra: usize::MAX },
        Hint::Loose { sub: 1000, extra: usize::MAX / 2 },
    ];
    if include_2_20 {
        v.push(Hint::Loose { sub: 2, extra: 1 << 20 });
    }
    v
}

fn mk(v: &[P3]) -> Vec<(Key, Prio)> {
    v.iter().map(|&(k, p, pl)| (Key::new(k, pl), Prio::new(p))).collect()
}

pub struct HintOut {
    pub fail: Option<FailRec>,
    pub strategies: Vec<&'static str>,
}

fn predicted_rebuild(len0: usize, rep: (usize, Option<usize>)) -> &'static str {
    // coverage only: which side of the crate's documented threshold this report falls on, if the
    // decision were taken on the upper bound / on the lower bound
    let lg = if len0 > 1 { (usize::BITS - len0.leading_zeros() - 1) as u128 } else { 0 };
    let side = |n2: usize| len0 > 1 && n2 > 0 && 2u128 * (len0 as u128 + n2 as u128) < n2 as u128 * lg;
    match (side(rep.0), rep.1.map(side)) {
        (true, _) => "lower_bound_past_threshold",
        (false, Some(true)) => "only_upper_bound_past_threshold",
        _ => "below_threshold",
    }
}

pub fn run_hint_case(b: &HintBody) -> Result<HintOut, String> {
    ledger_reset();
    crate::hashers::reset_instances();
    disarm_all();
    crate::hashers::set_current(b.cfg.hasher);
    let mut q = construct(b.cfg.kind, b.cfg.ctor);
    let mut m = Model::default();
    let mut cx = Ctx::new(b.cfg.universe);
    cx.deep = false;
    for st in &b.prefix {
        guarded(|| exec(&mut q, &mut m, st, &mut cx)).map_err(|e| format!("prefix panicked: {:?}", e))?;
    }
    let kind = q.kind();
    let len0 = q.len();
    // model: priorities, last wins
    let mut want = m.clone();
    for (k, p, pl) in &b.pairs {
        if want.get(*k).is_some() {
            want.set_prio(*k, *p);
        } else {
            want.push(*k, *p, *pl);
        }
    }
    let want_v: Vec<(u32, i32)> = want.m.iter().map(|(k, v)| (*k, v.0)).collect();
    let mut first: Option<(Hint, Vec<P3>)> = None;
    let mut out = HintOut { fail: None, strategies: Vec::new() };
    for (hi, h) in b.hints.iter().enumerate() {
        out.strategies.push(predicted_rebuild(len0, h.report(b.pairs.len())));
        if track_level() >= 2 {
            let mut b2 = b.clone();
            b2.hints = vec![*h];
            track_line(2, &format!("B {}", serde_json::to_string(&b2).unwrap()));
        }
        let r = guarded(|| {
            if b.from_iter {
                let mut v = q.clone().into_pairs();
                v.extend(mk(&b.pairs));
                AnyQ::from_iter(kind, HintedSource::new(v, *h))
            } else {
                let mut c2 = q.clone();
                c2.extend(HintedSource::new(mk(&b.pairs), *h));
                c2
            }
        });
        let what = if b.from_iter { "collect()" } else { "extend()" };
        let res = match r {
            Ok(x) => x,
            Err(e) => {
                let msg = match e {
                    Caught::Other(m2, l) => format!("{} @ {}", m2, l),
                    o => format!("{:?}", o),
                };
                out.fail = Some(FailRec { props: "C07".into(), class: "hint_panic".into(), msg: format!("{} of {} pairs on a queue of {} elements panicked under the legal size_hint report {:?}: {}", what, b.pairs.len(), len0, h.report(b.pairs.len()), msg), step: hi });
                return Ok(out);
            }
        };
        let mut got = res.contents();
        got.sort();
        let got_v: Vec<(u32, i32)> = got.iter().map(|x| (x.0, x.1)).collect();
        if got_v != want_v || res.len() != got.len() {
            out.fail = Some(FailRec { props: "C07".into(), class: "hint_contents".into(), msg: format!("{} under size_hint {:?}: contents {:?} (len() {}), expected (last priority wins) {:?}", what, h.report(b.pairs.len()), got_v, res.len(), want_v), step: hi });
            return Ok(out);
        }
        // correctly ordered: tables and full drains
        let mut cx2 = Ctx::new(b.cfg.universe);
        check_tables(&res, &mut cx2, "after extend");
        let s = res.contents();
        deep_order(&res, &s, C07, &mut cx2);
        if let Some(f) = cx2.fails.first() {
            out.fail = Some(FailRec { props: "C07".into(), class: "hint_order".into(), msg: format!("{} under size_hint {:?} left a wrongly ordered queue: {}", what, h.report(b.pairs.len()), f.msg), step: hi });
            return Ok(out);
        }
        match &first {
            None => first = Some((*h, got)),
            Some((h0, g0)) => {
                if *g0 != got {
                    let diff: Vec<String> = g0.iter().zip(got.iter()).filter(|(a, b2)| a != b2).take(3).map(|(a, b2)| format!("item {}: payload {:#x} vs {:#x}", a.0, a.2, b2.2)).collect();
                    out.fail = Some(FailRec {
                        props: "C07".into(),
                        class: "hint_dependent_outcome".into(),
                        msg: format!("{} of the same {} pairs on the same {}-element queue gives different results under size_hint {:?} and {:?}: {}", what, b.pairs.len(), len0, h0.report(b.pairs.len()), h.report(b.pairs.len()), diff.join("; ")),
                        step: hi,
                    });
                    return Ok(out);
                }
            }
        }
        drop(res);
    }
    Ok(out)
}

pub struct HintEngine {
    pub quick_runs: u64,
    pub thorough_runs: u64,
}

impl Engine for HintEngine {
    fn prop(&self) -> &'static str {
        "C07"
    }
    fn info(&self) -> EngineInfo {
        EngineInfo {
            level: "exploration",
            unit: "(receiver state, pair sequence) cases, each executed under every size_hint class",
            rule: "receiver sizes straddle the push-versus-rebuild threshold (0,1,2,7,8,9,15..17,31..33,63..65 and random), pair sequences over the small universe with duplication; every case runs under 11-12 size_hint classes (exact, (0,None), (0,Some(n)), (n,None), loose uppers +1,+17,+1000,(+2^20),+2^40, up to usize::MAX). Non-trivial = at least 2 pairs and a receiver of >= 2 elements; distinct = digest of (state, pairs, mode)".into(),
            real: REAL.to_vec(),
            stubbed: STUBBED.to_vec(),
            assumptions: vec!["the simulated memory ceiling (1 GiB per request) makes an over-reservation fail deterministically instead of depending on the host's overcommit".into(), "sampling, not proof".into()],
            fault_kinds: vec!["size_hint misreport (any legal report)", "simulated memory ceiling"],
            exhaustive_note: None,
        }
    }
    fn runs(&self, tier: Tier) -> u64 {
        match tier {
            Tier::Quick => self.quick_runs,
            Tier::Thorough => self.thorough_runs,
        }
    }
    fn run_one(&self, seed: u64, idx: u64, _tier: Tier, acc: &mut Acc) {
        let mut rng = Rng::new(mix(seed, idx) ^ 0xC07D);
        let mut cfg = gen_cfg(&mut rng, C07, None);
        cfg.universe = match rng.below(4) {
            0 => 12,
            1 => 40,
            2 => 80,
            _ => 200,
        };
        let target = match rng.below(20) {
            0 => 0,
            1 => 1,
            2 => 2,
            3 => 7,
            4 => 8,
            5 => 9,
            6 => 15,
            7 => 16,
            8 => 17,
            9 => 31,
            10 => 32,
            11 => 33,
            12 => 63,
            13 => 64,
            14 => 65,
            _ => rng.usize(70),
        };
        let target = target.min(cfg.universe as usize);
        // prefix: pushes of distinct keys up to the target size, then a few arbitrary steps
        let mut g = Gen::new(rng);
        let mut m = Model::default();
        let mut prefix = Vec::new();
        let mut k = 0u32;
        while m.len() < target {
            let p = g.prio(&cfg, None, &m);
            let pl = 0x100 + k;
            prefix.push(Step::Push { k, p, pl });
            m.push(k, p, pl);
            k += 1 + (g.rng.below(3) == 0) as u32;
            if k > cfg.universe {
                break;
            }
        }
        let npairs = match g.rng.below(8) {
            0 => 0,
            1 => 1,
            2 => 2,
            3 => 17,
            4 => 18,
            _ => g.rng.usize(45),
        };
        let pairs: Vec<P3> = (0..npairs)
            .map(|i| {
                let key = g.key(&m, &cfg, 40);
                (key, g.prio(&cfg, m.prio(key), &m), 0x9000 + i as u32)
            })
            .collect();
        let from_iter = g.rng.chance(1, 4);
        let hints = all_hints(&mut g.rng, idx % 16 == 0);
        let body = HintBody { cfg: cfg.clone(), prefix, pairs, from_iter, hints };
        acc.runs += 1;
        acc.steps += body.hints.len() as u64;
        let d = {
            let s = serde_json::to_string(&body).unwrap();
            s.bytes().fold(idx, |h, b| (h ^ b as u64).wrapping_mul(0x100_0000_01b3))
        };
        acc.counters.insert("last_digest".into(), d);
        match run_hint_case(&body) {
            Ok(out) => {
                for s in &out.strategies {
                    acc.bump("probes", s, 1);
                }
                for h in &body.hints {
                    acc.bump("faults", &format!("size_hint_{}", h.name()), 1);
                }
                acc.bump("probes", if body.from_iter { "mode_from_iter" } else { "mode_extend" }, 1);
                if body.pairs.len() >= 2 && target >= 2 {
                    acc.nontrivial_runs += 1;
                    acc.digests.push(d);
                }
                if acc.samples.len() < 2 && body.pairs.len() <= 4 && body.pairs.len() >= 2 && body.prefix.len() <= 9 && body.prefix.len() >= 2 {
                    acc.samples.push(json!({"run": idx, "prefix": body.prefix, "pairs": body.pairs, "mode": if body.from_iter {"collect"} else {"extend"}, "hints": body.hints, "outcome": out.fail.as_ref().map_or("identical outcome under every report".to_string(), |f| f.msg.clone())}));
                }
                if let Some(f) = out.fail {
                    acc.violations.push(Case { property: "C07".into(), seed, run: idx, body: serde_json::to_value(&body).unwrap(), fail: Some(f), minimised: false, original_steps: 0 });
                }
            }
            Err(_) => acc.abandoned += 1,
        }
    }
    fn replay(&self, body: &serde_json::Value) -> Result<Option<FailRec>, String> {
        let b: HintBody = serde_json::from_value(body.clone()).map_err(|e| e.to_string())?;
        Ok(run_hint_case(&b)?.fail)
    }
    fn shrink_candidates(&self, body: &serde_json::Value, _fail: &FailRec) -> Vec<serde_json::Value> {
        let b: HintBody = match serde_json::from_value(body.clone()) {
            Ok(b) => b,
            Err(_) => return Vec::new(),
        };
        let mut out: Vec<HintBody> = Vec::new();
        // fewer hints (keep pairs of them: a differential failure needs two)
        if b.hints.len() > 2 {
            for i in 0..b.hints.len() {
                let mut c = b.clone();
                c.hints.remove(i);
                out.push(c);
            }
        } else if b.hints.len() == 2 {
            for i in 0..2 {
                let mut c = b.clone();
                c.hints.remove(i);
                out.push(c);
            }
        }
        // fewer pairs
        let n = b.pairs.len();
        if n > 0 {
            let mut c = b.clone();
            c.pairs.truncate(n / 2);
            out.push(c);
            let mut c = b.clone();
            c.pairs.drain(..n / 2);
            out.push(c);
            if n <= 12 {
                for i in 0..n {
                    let mut c = b.clone();
                    c.pairs.remove(i);
                    out.push(c);
                }
            }
        }
        // shorter prefix
        let pn = b.prefix.len();
        let mut chunk = (pn + 1) / 2;
        while chunk >= 1 {
            let mut i = 0;
            while i + chunk <= pn {
                let mut c = b.clone();
                c.prefix.drain(i..i + chunk);
                out.push(c);
                i += chunk;
            }
            if chunk == 1 {
                break;
            }
            chunk /= 2;
        }
        // smaller priorities
        for i in 0..b.pairs.len().min(8) {
            if b.pairs[i].1 != 0 {
                let mut c = b.clone();
                c.pairs[i].1 = 0;
                out.push(c);
            }
        }
        out.into_iter().map(|c| serde_json::to_value(&c).unwrap()).collect()
    }
    fn abort_is_violation(&self, _body: &serde_json::Value, class: &str) -> bool {
        // an abort of any kind under a legal size_hint report is worse than the panic the
        // statement forbids
        class == "abort_alloc_failure" || class.starts_with("abort_unsafe") || class.starts_with("abort_heap") || class.starts_with("abort_signal") || class == "abort_stack_overflow"
    }
    fn size_of(&self, body: &serde_json::Value) -> usize {
        let p = body.get("prefix").and_then(|s| s.as_array()).map_or(0, |a| a.len());
        let c = body.get("pairs").and_then(|s| s.as_array()).map_or(0, |a| a.len());
        let h = body.get("hints").and_then(|s| s.as_array()).map_or(0, |a| a.len());
        p + c + h
    }
}
