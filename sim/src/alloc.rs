//! The S4 seam: a global allocator that can be told to fail.
//!
//! * a fixed simulated memory ceiling: any single request above `CEILING` bytes fails, so the
//!   outcome of a huge request does not depend on the host's overcommit policy;
//! * a thread-local countdown: the k-th allocation from "now" returns null (one-shot), or the
//!   k-th and all later ones (persistent) until disarmed. Armed only by the harness around
//!   `try_reserve*` calls: a failing *infallible* allocation aborts by language rule.

use std::alloc::{GlobalAlloc, Layout, System};
use std::cell::Cell;

pub const CEILING: usize = 1 << 30;

pub struct FaultAlloc;

thread_local! {
    static COUNTDOWN: Cell<i64> = const { Cell::new(-1) };
    static PERSISTENT: Cell<bool> = const { Cell::new(false) };
    static COUNTING: Cell<bool> = const { Cell::new(false) };
    static SEEN: Cell<u64> = const { Cell::new(0) };
    static FAILED: Cell<u64> = const { Cell::new(0) };
    static CEILING_HITS: Cell<u64> = const { Cell::new(0) };
}

#[inline]
fn should_fail(size: usize) -> bool {
    if size > CEILING {
        let _ = CEILING_HITS.try_with(|c| c.set(c.get() + 1));
        return true;
    }
    let counting = COUNTING.try_with(|c| c.get()).unwrap_or(false);
    if !counting {
        return false;
    }
    let _ = SEEN.try_with(|c| c.set(c.get() + 1));
    let cd = COUNTDOWN.try_with(|c| c.get()).unwrap_or(-1);
    if cd < 0 {
        return false;
    }
    if cd == 0 {
        if !PERSISTENT.try_with(|c| c.get()).unwrap_or(false) {
            let _ = COUNTDOWN.try_with(|c| c.set(-1));
        }
        let _ = FAILED.try_with(|c| c.set(c.get() + 1));
        return true;
    }
    let _ = COUNTDOWN.try_with(|c| c.set(cd - 1));
    false
}

unsafe impl GlobalAlloc for FaultAlloc {
    unsafe fn alloc(&self, l: Layout) -> *mut u8 {
        if should_fail(l.size()) {
            return std::ptr::null_mut();
        }
        System.alloc(l)
    }
    unsafe fn dealloc(&self, p: *mut u8, l: Layout) {
        System.dealloc(p, l)
    }
    unsafe fn alloc_zeroed(&self, l: Layout) -> *mut u8 {
        if should_fail(l.size()) {
            return std::ptr::null_mut();
        }
        System.alloc_zeroed(l)
    }
    unsafe fn realloc(&self, p: *mut u8, l: Layout, new_size: usize) -> *mut u8 {
        if new_size > l.size() && should_fail(new_size) {
            return std::ptr::null_mut();
        }
        System.realloc(p, l, new_size)
    }
}

/// Start counting allocation requests (growth only) on this thread; optionally make the
/// `fail_at`-th one (0-based) fail, once or persistently.
pub fn begin(fail_at: Option<u64>, persistent: bool) {
    SEEN.with(|c| c.set(0));
    FAILED.with(|c| c.set(0));
    PERSISTENT.with(|c| c.set(persistent));
    COUNTDOWN.with(|c| c.set(fail_at.map(|k| k as i64).unwrap_or(-1)));
    COUNTING.with(|c| c.set(true));
}
/// Stop counting; returns (allocation requests seen, requests failed by injection).
pub fn end() -> (u64, u64) {
    COUNTING.with(|c| c.set(false));
    COUNTDOWN.with(|c| c.set(-1));
    (SEEN.with(|c| c.get()), FAILED.with(|c| c.get()))
}
pub fn ceiling_hits() -> u64 {
    CEILING_HITS.with(|c| c.get())
}
