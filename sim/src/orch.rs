//! Orchestration: worker processes, abort classification, minimisation, replay files, evidence.

use crate::exec::mask_names;
use serde::{Deserialize, Serialize};
use std::collections::{BTreeMap, BTreeSet};
use std::io::Write;
use std::path::{Path, PathBuf};
use std::process::{Command, Stdio};
use std::sync::atomic::{AtomicU8, Ordering};
use std::time::Instant;

pub const VERIF_DIR: &str = "/verif";

/// where evidence/ and replays/ are written: /verif, unless VERIF_OUT redirects a sensitivity
/// experiment (a run against a deliberately broken scratch copy must not touch real evidence)
pub fn out_dir() -> PathBuf {
    std::env::var("VERIF_OUT").map(PathBuf::from).unwrap_or_else(|_| PathBuf::from(VERIF_DIR))
}

// ------------------------------------------------------------------------------------------
// cases and failures

#[derive(Clone, Debug, Serialize, Deserialize, PartialEq, Eq)]
pub struct FailRec {
    pub props: String,
    pub class: String,
    pub msg: String,
    pub step: usize,
}

#[derive(Clone, Debug, Serialize, Deserialize)]
pub struct Case {
    pub property: String,
    pub seed: u64,
    pub run: u64,
    /// engine-specific, explicit and self-contained: replay never consults the PRNG
    pub body: serde_json::Value,
    pub fail: Option<FailRec>,
    #[serde(default)]
    pub minimised: bool,
    #[serde(default)]
    pub original_steps: usize,
}

/// What a batch of runs accumulated; merged across workers.
#[derive(Clone, Debug, Default, Serialize, Deserialize)]
pub struct Acc {
    pub runs: u64,
    pub nontrivial_runs: u64,
    pub steps: u64,
    pub ticks: u64,
    pub abandoned: u64,
    pub foreign_nonfatal: u64,
    pub benign_aborts: u64,
    pub probes: BTreeMap<String, u64>,
    pub fams: BTreeMap<String, u64>,
    pub faults_fired: BTreeMap<String, u64>,
    pub counters: BTreeMap<String, u64>,
    /// merged by maximum (worst observed values)
    #[serde(default)]
    pub maxima: BTreeMap<String, u64>,
    pub abandoned_samples: Vec<String>,
    pub samples: Vec<serde_json::Value>,
    pub violations: Vec<Case>,
    /// violations that match a `known` entry of known_findings.json: counted, one sample kept
    #[serde(default)]
    pub known_hits: u64,
    #[serde(default)]
    pub known_samples: Vec<Case>,
    /// (run index, digest) for the runs picked for the determinism re-check
    pub recheck: Vec<(u64, u64)>,
    #[serde(skip)]
    pub digests: Vec<u64>,
    #[serde(skip)]
    pub states: BTreeSet<u64>,
    pub state_count: u64,
}

impl Acc {
    pub fn bump(&mut self, map: &str, key: &str, by: u64) {
        let m = match map {
            "probes" => &mut self.probes,
            "fams" => &mut self.fams,
            "faults" => &mut self.faults_fired,
            _ => &mut self.counters,
        };
        *m.entry(key.to_string()).or_insert(0) += by;
    }
    pub fn merge(&mut self, o: Acc) {
        self.runs += o.runs;
        self.nontrivial_runs += o.nontrivial_runs;
        self.steps += o.steps;
        self.ticks += o.ticks;
        self.abandoned += o.abandoned;
        self.foreign_nonfatal += o.foreign_nonfatal;
        self.benign_aborts += o.benign_aborts;
        for (k, v) in o.probes {
            *self.probes.entry(k).or_insert(0) += v;
        }
        for (k, v) in o.fams {
            *self.fams.entry(k).or_insert(0) += v;
        }
        for (k, v) in o.faults_fired {
            *self.faults_fired.entry(k).or_insert(0) += v;
        }
        for (k, v) in o.counters {
            *self.counters.entry(k).or_insert(0) += v;
        }
        for (k, v) in o.maxima {
            let e = self.maxima.entry(k).or_insert(0);
            *e = (*e).max(v);
        }
        for s in o.abandoned_samples {
            if self.abandoned_samples.len() < 5 {
                self.abandoned_samples.push(s);
            }
        }
        for s in o.samples {
            if self.samples.len() < 4 {
                self.samples.push(s);
            }
        }
        self.violations.extend(o.violations);
        self.known_hits += o.known_hits;
        for c in o.known_samples {
            if !self.known_samples.iter().any(|k| k.fail.as_ref().map(|f| &f.class) == c.fail.as_ref().map(|f| &f.class)) {
                self.known_samples.push(c);
            }
        }
        self.recheck.extend(o.recheck);
        self.digests.extend(o.digests);
        self.state_count += o.state_count;
    }
}

#[derive(Clone, Copy, Debug, PartialEq, Eq)]
pub enum Tier {
    Quick,
    Thorough,
}
impl Tier {
    pub fn name(self) -> &'static str {
        match self {
            Tier::Quick => "quick",
            Tier::Thorough => "thorough",
        }
    }
    pub fn parse(s: &str) -> Tier {
        if s == "thorough" {
            Tier::Thorough
        } else {
            Tier::Quick
        }
    }
}

pub struct EngineInfo {
    pub level: &'static str,
    pub unit: &'static str,
    pub rule: String,
    pub real: Vec<&'static str>,
    pub stubbed: Vec<&'static str>,
    pub assumptions: Vec<String>,
    pub fault_kinds: Vec<&'static str>,
    pub exhaustive_note: Option<String>,
}

pub trait Engine: Sync {
    fn prop(&self) -> &'static str;
    fn info(&self) -> EngineInfo;
    fn runs(&self, tier: Tier) -> u64;
    /// Generate and execute run `idx`; record into `acc`; push a Case for a violation.
    fn run_one(&self, seed: u64, idx: u64, tier: Tier, acc: &mut Acc);
    /// Execute an explicit case body in this process; Some(fail) if the property is violated.
    fn replay(&self, body: &serde_json::Value) -> Result<Option<FailRec>, String>;
    /// Smaller / simpler variants of a failing body, most aggressive first.
    fn shrink_candidates(&self, body: &serde_json::Value, fail: &FailRec) -> Vec<serde_json::Value>;
    /// Property tags of an abnormal process death while executing `body` (last step = culprit);
    /// `class` is the classified abort kind. None = not this property's business.
    fn abort_is_violation(&self, body: &serde_json::Value, class: &str) -> bool;
    fn size_of(&self, body: &serde_json::Value) -> usize;
    /// A body tracked by a part of a composite engine while run `idx` executed, in the form
    /// `replay` expects.
    fn wrap_tracked(&self, _idx: u64, body: serde_json::Value) -> serde_json::Value {
        body
    }
    /// An operation that never returns delivers none of what any statement promises; only a
    /// check whose statement is about memory safety alone (C10) does not count it.
    fn hang_is_violation(&self) -> bool {
        true
    }
}

// ------------------------------------------------------------------------------------------
// tracking (used only when re-running after an abnormal worker death)

static TRACK_LEVEL: AtomicU8 = AtomicU8::new(0);
static TRACK_FILE: std::sync::Mutex<Option<std::fs::File>> = std::sync::Mutex::new(None);

pub fn track_level() -> u8 {
    TRACK_LEVEL.load(Ordering::Relaxed)
}
pub fn track_line(level: u8, line: &str) {
    if TRACK_LEVEL.load(Ordering::Relaxed) >= level {
        if let Ok(mut g) = TRACK_FILE.lock() {
            if let Some(f) = g.as_mut() {
                let _ = f.write_all(line.as_bytes());
                let _ = f.write_all(b"\n");
            }
        }
    }
}
fn track_open(path: &str, level: u8) {
    let f = std::fs::OpenOptions::new().create(true).append(true).open(path).expect("track file");
    *TRACK_FILE.lock().unwrap() = Some(f);
    TRACK_LEVEL.store(level, Ordering::Relaxed);
}

// ------------------------------------------------------------------------------------------
// worker

pub fn recheck_pick(seed: u64, idx: u64, every: u64) -> bool {
    crate::rng::mix(seed ^ 0xdec0de, idx) % every.max(1) == 0
}

/// Progress counter of this process (bumped at every run / replayed case) and a watchdog thread:
/// a run that makes no progress for VERIF_HANG_SECS (default 120) wall-clock seconds is an
/// operation of the crate that does not return. The watchdog says so on stderr and ends the
/// process with exit code 97, which the orchestrator classifies as `hang_no_progress`.
/// (Wall-clock time is used for this one purpose only; nothing the simulation decides reads it.)
static PROGRESS: std::sync::atomic::AtomicU64 = std::sync::atomic::AtomicU64::new(0);

pub fn hang_secs() -> u64 {
    std::env::var("VERIF_HANG_SECS").ok().and_then(|s| s.parse().ok()).unwrap_or(120).max(5)
}

pub fn start_watchdog() {
    let limit = hang_secs();
    std::thread::spawn(move || {
        let mut last = PROGRESS.load(Ordering::Relaxed);
        let mut since = Instant::now();
        loop {
            std::thread::sleep(std::time::Duration::from_millis(500));
            let now = PROGRESS.load(Ordering::Relaxed);
            if now != last {
                last = now;
                since = Instant::now();
            } else if since.elapsed().as_secs() >= limit {
                eprintln!("HANG: no progress for {} s in one run: an operation of the crate does not return", limit);
                std::process::exit(97);
            }
        }
    });
}

pub fn worker_main(engine: &dyn Engine, args: &[String]) -> i32 {
    start_watchdog();
    // worker <prop> <tier> <seed> <start> <count> [--track FILE LEVEL] [--digests FILE] [--recheck-every N] [--only a,b,c]
    let tier = Tier::parse(&args[1]);
    crate::types::THOROUGH.store(tier == Tier::Thorough, Ordering::Relaxed);
    let seed: u64 = args[2].parse().unwrap();
    let start: u64 = args[3].parse().unwrap();
    let count: u64 = args[4].parse().unwrap();
    let mut digests_file = None;
    let mut only: Option<Vec<u64>> = None;
    let mut recheck_every = 0u64;
    let mut i = 5;
    while i < args.len() {
        match args[i].as_str() {
            "--track" => {
                track_open(&args[i + 1], args[i + 2].parse().unwrap());
                i += 3;
            }
            "--digests" => {
                digests_file = Some(args[i + 1].clone());
                i += 2;
            }
            "--recheck-every" => {
                recheck_every = args[i + 1].parse().unwrap();
                i += 2;
            }
            "--only" => {
                only = Some(args[i + 1].split(',').filter(|s| !s.is_empty()).map(|s| s.parse().unwrap()).collect());
                i += 2;
            }
            _ => i += 1,
        }
    }
    let mut acc = Acc::default();
    let known = load_known();
    let stop_on_violation = only.is_none();
    let indices: Vec<u64> = match only {
        Some(v) => v,
        None => (start..start + count).collect(),
    };
    for idx in indices {
        track_line(1, &format!("R {}", idx));
        PROGRESS.fetch_add(1, Ordering::Relaxed);
        acc.counters.insert("last_digest".into(), 0);
        engine.run_one(seed, idx, tier, &mut acc);
        // a violation that is a recorded known finding does not stop the exploration
        let mut keep = Vec::new();
        for v in acc.violations.drain(..) {
            let is_known = v.fail.as_ref().map_or(false, |f| known_match(&known, &v.property, f).is_some());
            if is_known {
                acc.known_hits += 1;
                if acc.known_samples.is_empty() {
                    acc.known_samples.push(v);
                }
            } else {
                keep.push(v);
            }
        }
        acc.violations = keep;
        if recheck_every > 0 && recheck_pick(seed, idx, recheck_every) {
            let d = acc.counters.get("last_digest").copied().unwrap_or(0);
            acc.recheck.push((idx, d));
        }
        if stop_on_violation && acc.violations.len() >= 1 {
            break;
        }
    }
    acc.counters.remove("last_digest");
    if let Some(p) = digests_file {
        let mut bytes = Vec::with_capacity(acc.digests.len() * 8);
        for d in &acc.digests {
            bytes.extend_from_slice(&d.to_le_bytes());
        }
        let _ = std::fs::write(&p, bytes);
        let mut sb = Vec::with_capacity(acc.states.len() * 8);
        for d in &acc.states {
            sb.extend_from_slice(&d.to_le_bytes());
        }
        let _ = std::fs::write(format!("{}.states", p), sb);
    }
    let fired = crate::types::fired_counts();
    for (i, c) in crate::types::ALL_CB.iter().enumerate() {
        if fired[i] > 0 && !acc.faults_fired.contains_key(&format!("panic_in_{}", c.name())) {
            acc.bump("faults", &format!("panic_in_{}", c.name()), fired[i]);
        }
    }
    println!("{}", serde_json::to_string(&acc).unwrap());
    0
}

// ------------------------------------------------------------------------------------------
// orchestrator

struct Child {
    start: u64,
    count: u64,
    child: std::process::Child,
    stderr_path: PathBuf,
    digests_path: PathBuf,
}

fn exe() -> PathBuf {
    std::env::current_exe().expect("current_exe")
}

pub fn scratch_dir() -> PathBuf {
    let base = std::env::var("VERIF_SCRATCH").map(PathBuf::from).unwrap_or_else(|_| {
        let mut p = exe();
        p.pop();
        p.push("scratch");
        p
    });
    let d = base.join(format!("{}", std::process::id()));
    std::fs::create_dir_all(&d).expect("scratch dir");
    d
}

fn spawn_worker(prop: &str, tier: Tier, seed: u64, start: u64, count: u64, dir: &Path, tag: &str, extra: &[String]) -> Child {
    let stderr_path = dir.join(format!("w{}-{}.stderr", tag, start));
    let digests_path = dir.join(format!("w{}-{}.digests", tag, start));
    let errf = std::fs::File::create(&stderr_path).expect("stderr file");
    let mut cmd = Command::new(exe());
    cmd.arg("worker").arg(prop).arg(tier.name()).arg(seed.to_string()).arg(start.to_string()).arg(count.to_string());
    cmd.arg("--digests").arg(&digests_path);
    for e in extra {
        cmd.arg(e);
    }
    cmd.env_remove("RUST_BACKTRACE");
    cmd.stdin(Stdio::null()).stdout(Stdio::piped()).stderr(Stdio::from(errf));
    let child = cmd.spawn().expect("spawn worker");
    Child { start, count, child, stderr_path, digests_path }
}

pub struct AbortInfo {
    pub class: String,
    pub detail: String,
    pub benign: bool,
    pub memory_safety: bool,
}

pub fn classify_abort(status: &std::process::ExitStatus, stderr: &str) -> AbortInfo {
    use std::os::unix::process::ExitStatusExt;
    let sig = status.signal();
    let last: Vec<&str> = stderr.lines().rev().take(12).collect();
    let tail = last.iter().rev().cloned().collect::<Vec<_>>().join(" | ");
    let has = |s: &str| stderr.contains(s);
    if status.code() == Some(97) && has("HANG: no progress") {
        return AbortInfo { class: "hang_no_progress".into(), detail: last.iter().rev().filter(|l| l.contains("HANG")).cloned().collect::<Vec<_>>().join(" | "), benign: false, memory_safety: false };
    }
    if has("unsafe precondition(s) violated") {
        return AbortInfo { class: "abort_unsafe_precondition".into(), detail: tail, benign: false, memory_safety: true };
    }
    if has("double free") || has("free(): invalid") || has("malloc(): ") || has("corrupted size") || has("munmap_chunk") || has("malloc_consolidate") || has("corrupted double-linked") {
        return AbortInfo { class: "abort_heap_corruption".into(), detail: tail, benign: false, memory_safety: true };
    }
    if matches!(sig, Some(11) | Some(7) | Some(4)) {
        if has("has overflowed its stack") {
            return AbortInfo { class: "abort_stack_overflow".into(), detail: tail, benign: false, memory_safety: false };
        }
        return AbortInfo { class: format!("abort_signal_{}", sig.unwrap()), detail: tail, benign: false, memory_safety: true };
    }
    if has("has overflowed its stack") {
        return AbortInfo { class: "abort_stack_overflow".into(), detail: tail, benign: false, memory_safety: false };
    }
    if has("memory allocation of") {
        return AbortInfo { class: "abort_alloc_failure".into(), detail: tail, benign: false, memory_safety: false };
    }
    if has("panic in a destructor during cleanup") || has("panicked while processing panic") || has("failed to initiate panic") {
        return AbortInfo { class: "abort_double_panic".into(), detail: tail, benign: true, memory_safety: false };
    }
    if has("cannot unwind") || has("non-unwinding panic") {
        return AbortInfo { class: "abort_nounwind_panic".into(), detail: tail, benign: false, memory_safety: false };
    }
    AbortInfo { class: format!("abort_unknown_status_{:?}_signal_{:?}", status.code(), sig), detail: tail, benign: false, memory_safety: false }
}

fn read_u64s(p: &Path) -> Vec<u64> {
    match std::fs::read(p) {
        Ok(b) => b.chunks_exact(8).map(|c| u64::from_le_bytes(c.try_into().unwrap())).collect(),
        Err(_) => Vec::new(),
    }
}

/// Re-run a block after an abnormal death to find the run and the explicit case that aborts.
/// Returns (run index, explicit body if the engine tracked one, abort info).
fn locate_abort(engine: &dyn Engine, tier: Tier, seed: u64, start: u64, count: u64, dir: &Path) -> Result<(u64, Option<serde_json::Value>, AbortInfo), String> {
    let prop = engine.prop();
    let t1 = dir.join(format!("track1-{}", start));
    let _ = std::fs::remove_file(&t1);
    let c = spawn_worker(prop, tier, seed, start, count, dir, "L1", &["--track".into(), t1.to_string_lossy().into(), "1".into()]);
    let out = c.child.wait_with_output().map_err(|e| e.to_string())?;
    if out.status.success() {
        return Err(format!("worker block {}+{} died once but completed when re-run: the simulator is not deterministic", start, count));
    }
    let txt = std::fs::read_to_string(&t1).unwrap_or_default();
    let run: u64 = txt.lines().rev().find_map(|l| l.strip_prefix("R ").and_then(|x| x.parse().ok())).ok_or("no run index tracked")?;
    let t2 = dir.join(format!("track2-{}", run));
    let _ = std::fs::remove_file(&t2);
    let c = spawn_worker(prop, tier, seed, run, 1, dir, "L2", &["--track".into(), t2.to_string_lossy().into(), "2".into()]);
    let stderr_path = c.stderr_path.clone();
    let out = c.child.wait_with_output().map_err(|e| e.to_string())?;
    if out.status.success() {
        return Err(format!("run {} aborted inside its block but completed alone: state leaks between runs", run));
    }
    let stderr = std::fs::read_to_string(&stderr_path).unwrap_or_default();
    let info = classify_abort(&out.status, &stderr);
    let txt = std::fs::read_to_string(&t2).unwrap_or_default();
    // engines write "B <json>" lines: each one is a complete explicit body up to the step about to run
    let body: Option<serde_json::Value> = txt.lines().rev().find_map(|l| l.strip_prefix("B ").and_then(|x| serde_json::from_str(x).ok()));
    Ok((run, body.map(|b| engine.wrap_tracked(run, b)), info))
}

/// Run an explicit case in a child process. Ok(None) = passes, Ok(Some(fail)) = fails.
pub fn replay_in_child(case: &Case, dir: &Path) -> Result<Option<FailRec>, String> {
    let p = dir.join(format!("cand-{}.json", std::process::id()));
    std::fs::write(&p, serde_json::to_string(case).unwrap()).map_err(|e| e.to_string())?;
    let errp = dir.join("cand.stderr");
    let errf = std::fs::File::create(&errp).map_err(|e| e.to_string())?;
    let out = Command::new(exe()).arg("replay-inner").arg(&p).env_remove("RUST_BACKTRACE").stdin(Stdio::null()).stdout(Stdio::piped()).stderr(Stdio::from(errf)).output().map_err(|e| e.to_string())?;
    let stdout = String::from_utf8_lossy(&out.stdout).to_string();
    if out.status.success() || out.status.code() == Some(1) {
        for l in stdout.lines() {
            if let Some(j) = l.strip_prefix("FAIL ") {
                return serde_json::from_str(j).map(Some).map_err(|e| e.to_string());
            }
            if l.starts_with("PASS") {
                return Ok(None);
            }
        }
        return Err(format!("replay child printed neither PASS nor FAIL: {}", stdout));
    }
    if out.status.code() == Some(2) {
        return Err(format!("replay child reported a harness error: {}", stdout));
    }
    let stderr = std::fs::read_to_string(&errp).unwrap_or_default();
    let info = classify_abort(&out.status, &stderr);
    Ok(Some(FailRec { props: case.property.clone(), class: info.class, msg: info.detail, step: 0 }))
}

pub fn replay_inner_main(engine: &dyn Engine, case: &Case) -> i32 {
    start_watchdog();
    match engine.replay(&case.body) {
        Ok(Some(f)) => {
            println!("FAIL {}", serde_json::to_string(&f).unwrap());
            1
        }
        Ok(None) => {
            println!("PASS");
            0
        }
        Err(e) => {
            println!("ERROR {}", e);
            2
        }
    }
}

fn same_failure(a: &FailRec, b: &FailRec) -> bool {
    a.class == b.class
}

/// Delta-debug a failing case; every candidate is executed in a child process when the failure
/// is an abort, in this process (inside a dedicated shrink child) otherwise.
pub fn shrink_case(engine: &dyn Engine, case: &Case, dir: &Path, budget_s: f64) -> Case {
    let fail = match &case.fail {
        Some(f) => f.clone(),
        None => return case.clone(),
    };
    let t0 = Instant::now();
    let abort_class = fail.class.starts_with("abort_");
    let mut best = case.clone();
    best.original_steps = engine.size_of(&case.body);
    if fail.class == "hang_no_progress" {
        // every candidate would cost the whole watchdog delay: reported as found
        return best;
    }
    let mut tries = 0u64;
    'outer: loop {
        let cands = engine.shrink_candidates(&best.body, &fail);
        for cand in cands {
            if t0.elapsed().as_secs_f64() > budget_s {
                break 'outer;
            }
            if engine.size_of(&cand) > engine.size_of(&best.body) {
                continue;
            }
            if cand == best.body {
                continue;
            }
            tries += 1;
            let c2 = Case { body: cand, fail: None, ..best.clone() };
            let r = if abort_class { replay_in_child(&c2, dir) } else { engine.replay(&c2.body) };
            if let Ok(Some(f2)) = r {
                if same_failure(&fail, &f2) {
                    best = Case { fail: Some(f2), ..c2 };
                    continue 'outer;
                }
            }
        }
        break;
    }
    let _ = tries;
    best.minimised = true;
    best
}

pub fn shrink_main(engine: &dyn Engine, path: &str) -> i32 {
    let case: Case = match std::fs::read_to_string(path).ok().and_then(|s| serde_json::from_str(&s).ok()) {
        Some(c) => c,
        None => return 2,
    };
    let dir = scratch_dir();
    let out = shrink_case(engine, &case, &dir, 20.0);
    let _ = std::fs::remove_dir_all(&dir);
    println!("{}", serde_json::to_string(&out).unwrap());
    0
}

#[derive(Debug, Deserialize)]
pub struct KnownFinding {
    pub property: String,
    pub status: String,
    #[serde(default)]
    pub class: String,
    #[serde(default)]
    pub msg_contains: String,
    #[serde(default)]
    pub what: String,
    #[serde(default)]
    pub commit: String,
}

pub fn known_match<'a>(known: &'a [KnownFinding], prop: &str, f: &FailRec) -> Option<&'a KnownFinding> {
    known.iter().find(|k| k.status == "known" && k.property == prop && (k.class.is_empty() || k.class == f.class) && (k.msg_contains.is_empty() || f.msg.contains(&k.msg_contains)))
}

pub fn load_known() -> Vec<KnownFinding> {
    let p = Path::new(VERIF_DIR).join("known_findings.json");
    match std::fs::read_to_string(&p) {
        Ok(s) => {
            #[derive(Deserialize)]
            struct F {
                findings: Vec<KnownFinding>,
            }
            serde_json::from_str::<F>(&s).map(|f| f.findings).unwrap_or_default()
        }
        Err(_) => Vec::new(),
    }
}

fn digest_str(s: &str) -> String {
    format!("{:012x}", s.bytes().fold(0xcbf2_9ce4_8422_2325u64, |h, b| (h ^ b as u64).wrapping_mul(0x100_0000_01b3)) & 0xffff_ffff_ffff)
}

pub fn check_main(engine: &dyn Engine, tier: Tier) -> i32 {
    let t0 = Instant::now();
    let prop = engine.prop();
    let seed: u64 = std::env::var("VERIF_SEED").ok().and_then(|s| s.parse().ok()).unwrap_or(1);
    let runs: u64 = std::env::var("VERIF_RUNS").ok().and_then(|s| s.parse().ok()).unwrap_or_else(|| engine.runs(tier));
    let workers: u64 = std::env::var("VERIF_WORKERS").ok().and_then(|s| s.parse().ok()).unwrap_or(16).max(1).min(runs.max(1));
    let dir = scratch_dir();
    let recheck_n: u64 = if tier == Tier::Quick { 64 } else { 1024 };
    let recheck_every = (runs / recheck_n).max(1);
    eprintln!("[{}] {} tier, seed {}, {} runs on {} workers", prop, tier.name(), seed, runs, workers);

    let mut total = Acc::default();
    let mut harness_errors: Vec<String> = Vec::new();
    let mut abort_cases: Vec<Case> = Vec::new();
    // blocks still to do: (start, count)
    // the runs are cut into chunks (8 per worker slot), one process each, `workers` at a time: a
    // worker that dies costs one chunk, not a sixteenth of the whole exploration
    let nchunks = (workers * 8).min(runs.max(1));
    let per = (runs + nchunks - 1) / nchunks;
    let mut pending: Vec<(u64, u64)> = (0..nchunks).map(|w| (w * per, per.min(runs.saturating_sub(w * per)))).filter(|b| b.1 > 0).collect();
    pending.reverse();
    let mut relaunches = 0;
    while !pending.is_empty() {
        if abort_cases.len() >= 3 || abort_cases.iter().any(|c| c.fail.as_ref().map_or(false, |f| f.class == "hang_no_progress")) {
            // three abnormal deaths located and classified (or one hang, each of which costs the
            // watchdog delay three times over): that is the report; the rest of the exploration
            // would mostly die the same way
            let skipped: u64 = pending.iter().map(|b| b.1).sum();
            total.bump("counters", "runs_skipped_after_repeated_aborts", skipped);
            break;
        }
        let take = pending.len().min(workers as usize);
        let wave: Vec<(u64, u64)> = pending.split_off(pending.len() - take);
        let children: Vec<Child> = wave.iter().map(|(s, c)| spawn_worker(prop, tier, seed, *s, *c, &dir, "A", &["--recheck-every".into(), recheck_every.to_string()])).collect();
        for mut c in children {
            let (start, count) = (c.start, c.count);
            if abort_cases.len() >= 3 || abort_cases.iter().any(|c| c.fail.as_ref().map_or(false, |f| f.class == "hang_no_progress")) {
                let _ = c.child.kill();
                let _ = c.child.wait();
                total.bump("counters", "runs_skipped_after_repeated_aborts", count);
                continue;
            }
            let out = match c.child.wait_with_output() {
                Ok(o) => o,
                Err(e) => {
                    harness_errors.push(format!("wait: {}", e));
                    continue;
                }
            };
            if out.status.success() {
                let line = String::from_utf8_lossy(&out.stdout);
                match serde_json::from_str::<Acc>(line.trim()) {
                    Ok(mut a) => {
                        a.digests = read_u64s(&c.digests_path);
                        let st = read_u64s(&PathBuf::from(format!("{}.states", c.digests_path.to_string_lossy())));
                        total.states.extend(st);
                        total.merge(a);
                    }
                    Err(e) => harness_errors.push(format!("worker {}+{}: unparsable result: {} ({})", start, count, e, line.chars().take(200).collect::<String>())),
                }
                let _ = std::fs::remove_file(&c.digests_path);
                continue;
            }
            // abnormal death: find the run, classify, carry on behind it
            match locate_abort(engine, tier, seed, start, count, &dir) {
                Ok((run, body, info)) => {
                    eprintln!("[{}] worker died in run {}: {} ({})", prop, run, info.class, info.detail);
                    if info.benign {
                        total.benign_aborts += 1;
                    } else {
                        let body = body.unwrap_or(serde_json::Value::Null);
                        let counts = if info.class == "hang_no_progress" { engine.hang_is_violation() } else { engine.abort_is_violation(&body, &info.class) };
                        if counts {
                            let step = engine.size_of(&body).saturating_sub(1);
                            abort_cases.push(Case { property: prop.to_string(), seed, run, body, fail: Some(FailRec { props: prop.to_string(), class: info.class.clone(), msg: info.detail.clone(), step }), minimised: false, original_steps: 0 });
                        } else if info.class.starts_with("abort_unknown") || info.class == "abort_nounwind_panic" {
                            harness_errors.push(format!("run {}: unclassified abnormal death {}: {}", run, info.class, info.detail));
                        } else {
                            total.abandoned += 1;
                            if total.abandoned_samples.len() < 5 {
                                total.abandoned_samples.push(format!("run {} aborted: {} {}", run, info.class, info.detail));
                            }
                        }
                    }
                    // the runs before `run` are re-done together with the rest (results of the dead worker are lost)
                    relaunches += 1;
                    if relaunches <= 600 && t0.elapsed().as_secs() < 240 && abort_cases.len() < 3 {
                        if run > start {
                            pending.push((start, run - start));
                        }
                        if run + 1 < start + count {
                            pending.push((run + 1, start + count - run - 1));
                        }
                    } else {
                        total.bump("counters", "runs_skipped_after_repeated_aborts", count);
                    }
                }
                Err(e) => harness_errors.push(e),
            }
        }
    }

    // determinism re-check: the sampled runs again, in one other process, other block layout
    let mut det_checked = 0u64;
    let mut det_mismatch = 0u64;
    if !total.recheck.is_empty() && harness_errors.is_empty() {
        total.recheck.sort();
        let sample: Vec<(u64, u64)> = total.recheck.iter().cloned().take(recheck_n as usize * 2).collect();
        let list: Vec<String> = sample.iter().map(|x| x.0.to_string()).collect();
        let c = spawn_worker(prop, tier, seed, 0, 0, &dir, "D", &["--only".into(), list.join(","), "--recheck-every".into(), "1".into()]);
        match c.child.wait_with_output() {
            Ok(out) if out.status.success() => {
                if let Ok(a) = serde_json::from_str::<Acc>(String::from_utf8_lossy(&out.stdout).trim()) {
                    // in --only mode recheck_pick(…,1) picks every run
                    let again: BTreeMap<u64, u64> = a.recheck.into_iter().collect();
                    for (idx, d) in &sample {
                        det_checked += 1;
                        if again.get(idx) != Some(d) {
                            det_mismatch += 1;
                        }
                    }
                }
            }
            Ok(_) => harness_errors.push("determinism re-check worker died".into()),
            Err(e) => harness_errors.push(format!("determinism re-check: {}", e)),
        }
        if det_mismatch > 0 {
            harness_errors.push(format!("determinism: {} of {} re-executed runs produced a different event-log digest", det_mismatch, det_checked));
        }
    }

    // violations: minimise, write replay files, match against known findings
    let known = load_known();
    let mut viol: Vec<Case> = Vec::new();
    viol.extend(total.violations.drain(..));
    viol.extend(abort_cases);
    viol.sort_by_key(|c| c.run);
    let n_viol_found = viol.len();
    viol.truncate(3);
    // one sample per known finding, reported as KNOWN-FINDING (with a minimised replay file)
    viol.extend(total.known_samples.drain(..));
    let mut reported = 0;
    let mut known_hits = 0;
    let replays = out_dir().join("replays");
    let _ = std::fs::create_dir_all(&replays);
    let mut lines: Vec<String> = Vec::new();
    for v in viol {
        // shrink in a child so that a candidate that aborts cannot take the orchestrator down
        let tmp = dir.join("to-shrink.json");
        let _ = std::fs::write(&tmp, serde_json::to_string(&v).unwrap());
        let shr = Command::new(exe()).arg("shrink").arg(&tmp).env_remove("RUST_BACKTRACE").stdin(Stdio::null()).stderr(Stdio::null()).output();
        let min: Case = match shr {
            Ok(o) if o.status.success() => serde_json::from_str(String::from_utf8_lossy(&o.stdout).trim()).unwrap_or(v.clone()),
            _ => v.clone(),
        };
        // the minimised case must reproduce in a fresh process, same class
        let confirmed = match replay_in_child(&min, &dir) {
            Ok(Some(f)) => min.fail.as_ref().map_or(false, |m| m.class == f.class),
            _ => false,
        };
        let fin = if confirmed { min } else { v.clone() };
        let f = fin.fail.clone().unwrap();
        let text = serde_json::to_string_pretty(&fin).unwrap();
        let name = format!("{}-{}-{}.json", prop, fin.seed, digest_str(&text));
        let path = replays.join(&name);
        let _ = std::fs::write(&path, &text);
        let k = known_match(&known, prop, &f);
        if let Some(k) = k {
            known_hits += 1;
            lines.push(format!("KNOWN-FINDING: property={} {} (replay={})", prop, k.what, path.display()));
        } else {
            reported += 1;
            eprintln!("[{}] violation [{}] at step {}: {}", prop, f.class, f.step, f.msg);
            lines.push(format!("VIOLATION property={} replay={}", prop, path.display()));
        }
    }
    lines.sort();
    lines.dedup();

    // evidence
    total.digests.sort();
    total.digests.dedup();
    let distinct = total.digests.len() as u64;
    let wall = t0.elapsed().as_secs_f64();
    let info = engine.info();
    let mut coverage = serde_json::Map::new();
    let j = |v: u64| serde_json::Value::from(v);
    coverage.insert("evaluations".into(), j(total.runs));
    coverage.insert("runs_requested".into(), j(runs));
    coverage.insert("build_profile".into(), (if cfg!(debug_assertions) { "release + debug-assertions + overflow-checks" } else { "plain: release without debug-assertions and overflow-checks" }).into());
    coverage.insert("distinct_nontrivial".into(), j(distinct));
    coverage.insert("rule".into(), info.rule.clone().into());
    coverage.insert("unit".into(), info.unit.into());
    coverage.insert("samples".into(), serde_json::Value::Array(total.samples.clone()));
    coverage.insert("nontrivial_evaluations".into(), j(total.nontrivial_runs));
    coverage.insert("steps".into(), j(total.steps));
    coverage.insert("sim_ticks".into(), j(total.ticks));
    coverage.insert("simulated_time".into(), format!("{} comparator ticks (the only clock this system has)", total.ticks).into());
    coverage.insert("evaluations_per_hour".into(), j((total.runs as f64 / wall.max(0.001) * 3600.0) as u64));
    coverage.insert("abandoned".into(), j(total.abandoned));
    coverage.insert("abandoned_samples".into(), serde_json::to_value(&total.abandoned_samples).unwrap());
    coverage.insert("foreign_nonfatal".into(), j(total.foreign_nonfatal));
    coverage.insert("benign_double_panic_aborts".into(), j(total.benign_aborts));
    coverage.insert("faults_fired".into(), serde_json::to_value(&total.faults_fired).unwrap());
    coverage.insert("fault_kinds".into(), serde_json::to_value(&info.fault_kinds).unwrap());
    coverage.insert("step_families".into(), serde_json::to_value(&total.fams).unwrap());
    coverage.insert("probes".into(), serde_json::to_value(&total.probes).unwrap());
    coverage.insert("counters".into(), serde_json::to_value(&total.counters).unwrap());
    if !total.maxima.is_empty() {
        coverage.insert("worst_observed".into(), serde_json::to_value(&total.maxima).unwrap());
    }
    coverage.insert("state_signatures".into(), j(total.states.len() as u64));
    coverage.insert("determinism".into(), serde_json::json!({"rechecked": det_checked, "mismatches": det_mismatch}));
    coverage.insert("components".into(), serde_json::json!({"real": info.real, "stubbed": info.stubbed}));
    coverage.insert("workers".into(), j(workers));
    coverage.insert("violations_found_before_cap".into(), j(n_viol_found as u64));
    coverage.insert("known_findings_matched".into(), j(known_hits));
    coverage.insert("known_finding_occurrences".into(), j(total.known_hits));
    if let Some(n) = &info.exhaustive_note {
        coverage.insert("exhaustive_parts".into(), n.clone().into());
    }
    coverage.insert("exhaustive".into(), false.into());
    let blind: Vec<&String> = total.probes.iter().filter(|(_, v)| **v == 0).map(|(k, _)| k).collect();
    coverage.insert("blind_spots".into(), serde_json::to_value(&blind).unwrap());
    let ev = serde_json::json!({
        "property_id": prop,
        "tier": tier.name(),
        "seed": seed,
        "level": info.level,
        "coverage": coverage,
        "assumptions": info.assumptions,
        "wall_s": (wall * 1000.0).round() / 1000.0,
        "violations": reported,
        "harness_errors": harness_errors,
    });
    let evdir = out_dir().join("evidence");
    let _ = std::fs::create_dir_all(&evdir);
    let evp = evdir.join(format!("{}.json", prop));
    if let Err(e) = std::fs::write(&evp, serde_json::to_string_pretty(&ev).unwrap()) {
        harness_errors.push(format!("cannot write evidence: {}", e));
    }
    let _ = std::fs::remove_dir_all(&dir);
    for l in &lines {
        println!("{}", l);
    }
    eprintln!("[{}] {} runs ({} non-trivial distinct), {} steps, {} abandoned, {:.1}s, {} violation(s), {} known", prop, total.runs, distinct, total.steps, total.abandoned, wall, reported, known_hits);
    if !harness_errors.is_empty() {
        for e in &harness_errors {
            eprintln!("[{}] HARNESS ERROR: {}", prop, e);
        }
        return 2;
    }
    if reported > 0 {
        1
    } else {
        0
    }
}

pub fn replay_main(engine_of: &dyn Fn(&str) -> Option<Box<dyn Engine>>, path: &str) -> i32 {
    let case: Case = match std::fs::read_to_string(path).map_err(|e| e.to_string()).and_then(|s| serde_json::from_str(&s).map_err(|e| e.to_string())) {
        Ok(c) => c,
        Err(e) => {
            eprintln!("cannot read replay file {}: {}", path, e);
            return 2;
        }
    };
    let engine = match engine_of(&case.property) {
        Some(e) => e,
        None => {
            eprintln!("no engine for {}", case.property);
            return 2;
        }
    };
    let _ = engine;
    let dir = scratch_dir();
    let r = replay_in_child(&case, &dir);
    let _ = std::fs::remove_dir_all(&dir);
    match r {
        Ok(Some(f)) => {
            let same = case.fail.as_ref().map_or(true, |o| o.class == f.class);
            println!("replayed {}: [{}] {}", path, f.class, f.msg);
            if let Some(o) = &case.fail {
                println!("recorded        : [{}] {}", o.class, o.msg);
            }
            println!("{}", if same { "REPRODUCED (same violation class)" } else { "FAILS DIFFERENTLY" });
            let known = load_known();
            if let Some(k) = known_match(&known, &case.property, &f) {
                println!("KNOWN-FINDING: property={} {} (replay={})", case.property, k.what, path);
                return 0;
            }
            println!("VIOLATION property={} replay={}", case.property, path);
            1
        }
        Ok(None) => {
            println!("replayed {}: passes (violation not reproduced on this tree)", path);
            0
        }
        Err(e) => {
            eprintln!("replay error: {}", e);
            2
        }
    }
}

pub fn names(m: u32) -> String {
    mask_names(m)
}


/// `selftest determinism [K]`: for every property run indices 0..K once in a single process and
/// once split over 16 processes and compare the per-run event-log digests.
pub fn selftest_determinism(engine_of: &dyn Fn(&str) -> Option<Box<dyn Engine>>, k: u64) -> i32 {
    let seed: u64 = std::env::var("VERIF_SEED").ok().and_then(|s| s.parse().ok()).unwrap_or(1);
    let dir = scratch_dir();
    let mut bad = 0u64;
    let mut total = 0u64;
    for n in 1..=18 {
        let prop = format!("C{:02}", n);
        let engine = match engine_of(&prop) {
            Some(e) => e,
            None => continue,
        };
        let kk = if prop == "C05" { (k / 25).max(8) } else { k };
        let collect = |layout: &[(u64, u64)], tag: &str| -> Result<BTreeMap<u64, u64>, String> {
            let children: Vec<Child> = layout.iter().map(|(s, c)| spawn_worker(engine.prop(), Tier::Quick, seed, *s, *c, &dir, tag, &["--recheck-every".into(), "1".into()])).collect();
            let mut m = BTreeMap::new();
            for c in children {
                let out = c.child.wait_with_output().map_err(|e| e.to_string())?;
                if !out.status.success() {
                    return Err(format!("worker {}+{} failed", c.start, c.count));
                }
                let a: Acc = serde_json::from_str(String::from_utf8_lossy(&out.stdout).trim()).map_err(|e| e.to_string())?;
                if !a.violations.is_empty() {
                    return Err(format!("violation in selftest run {}", a.violations[0].run));
                }
                m.extend(a.recheck);
                let _ = std::fs::remove_file(&c.digests_path);
            }
            Ok(m)
        };
        let one = collect(&[(0, kk)], "S1");
        let per = (kk + 15) / 16;
        let layout: Vec<(u64, u64)> = (0..16).map(|w| (w * per, per.min(kk.saturating_sub(w * per)))).filter(|b| b.1 > 0).collect();
        let many = collect(&layout, "S16");
        match (one, many) {
            (Ok(a), Ok(b)) => {
                let mism = a.iter().filter(|(i, d)| b.get(i) != Some(d)).count() as u64 + (a.len() as i64 - b.len() as i64).unsigned_abs();
                total += a.len() as u64;
                bad += mism;
                println!("{}: {} runs executed twice (1 process vs 16 processes): {} digest mismatches", prop, a.len(), mism);
            }
            (Err(e), _) | (_, Err(e)) => {
                println!("{}: selftest error: {}", prop, e);
                bad += 1;
            }
        }
    }
    let _ = std::fs::remove_dir_all(&dir);
    println!("determinism selftest: {} runs compared, {} mismatches", total, bad);
    if bad == 0 {
        0
    } else {
        2
    }
}
