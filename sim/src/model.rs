//! The reference model: a map from item id to (priority, item payload). Trivial on purpose.

use std::collections::BTreeMap;

#[derive(Clone, Debug, Default, PartialEq, Eq)]
pub struct Model {
    pub m: BTreeMap<u32, (i32, u32)>,
}

impl Model {
    pub fn len(&self) -> usize {
        self.m.len()
    }
    pub fn is_empty(&self) -> bool {
        self.m.is_empty()
    }
    pub fn get(&self, k: u32) -> Option<(i32, u32)> {
        self.m.get(&k).copied()
    }
    pub fn prio(&self, k: u32) -> Option<i32> {
        self.m.get(&k).map(|e| e.0)
    }
    /// push semantics: a present item keeps its stored value (payload), only the priority changes
    pub fn push(&mut self, k: u32, p: i32, pl: u32) {
        self.m.entry(k).and_modify(|e| e.0 = p).or_insert((p, pl));
    }
    /// From<Vec> semantics: the first pair given for an item wins
    pub fn push_first(&mut self, k: u32, p: i32, pl: u32) {
        self.m.entry(k).or_insert((p, pl));
    }
    pub fn set_prio(&mut self, k: u32, p: i32) {
        if let Some(e) = self.m.get_mut(&k) {
            e.0 = p;
        }
    }
    pub fn set_payload(&mut self, k: u32, pl: u32) {
        if let Some(e) = self.m.get_mut(&k) {
            e.1 = pl;
        }
    }
    pub fn remove(&mut self, k: u32) -> Option<(i32, u32)> {
        self.m.remove(&k)
    }
    pub fn clear(&mut self) {
        self.m.clear()
    }
    pub fn max(&self) -> Option<i32> {
        self.m.values().map(|e| e.0).max()
    }
    pub fn min(&self) -> Option<i32> {
        self.m.values().map(|e| e.0).min()
    }
    pub fn keys(&self) -> Vec<u32> {
        self.m.keys().copied().collect()
    }
}
