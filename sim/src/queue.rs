//! The system under test behind one enum, so that converting between the two queue kinds is an
//! ordinary step of a history. Everything here calls the real crate built from /repo.

use crate::hashers::DynState;
use crate::types::{Key, KeyId, Prio};
use priority_queue::verif::VerifSnapshot;
use priority_queue::{DoublePriorityQueue, PriorityQueue};

thread_local! {
    /// Some(v): an `==` and the `!=` of the same two queues both returned v
    pub static NE_DISAGREES: std::cell::Cell<Option<bool>> = const { std::cell::Cell::new(None) };
}

pub type PQ = PriorityQueue<Key, Prio, DynState>;
pub type DPQ = DoublePriorityQueue<Key, Prio, DynState>;

#[derive(Clone, Copy, Debug, PartialEq, Eq, PartialOrd, Ord, Hash, serde::Serialize, serde::Deserialize)]
pub enum Kind {
    Pq,
    Dpq,
}

#[derive(Clone, Copy, Debug, PartialEq, Eq, PartialOrd, Ord, Hash, serde::Serialize, serde::Deserialize)]
pub enum End {
    Min,
    Max,
}

#[derive(Clone)]
pub enum AnyQ {
    Pq(PQ),
    Dpq(DPQ),
}

macro_rules! both {
    ($s:expr, $q:ident => $e:expr) => {
        match $s {
            AnyQ::Pq($q) => $e,
            AnyQ::Dpq($q) => $e,
        }
    };
}
pub(crate) use both;

/// (id, priority, payload)
pub type Triple = (u32, i32, u32);

impl AnyQ {
    pub fn kind(&self) -> Kind {
        match self {
            AnyQ::Pq(_) => Kind::Pq,
            AnyQ::Dpq(_) => Kind::Dpq,
        }
    }
    pub fn len(&self) -> usize {
        both!(self, q => q.len())
    }
    pub fn is_empty(&self) -> bool {
        both!(self, q => q.is_empty())
    }
    pub fn capacity(&self) -> usize {
        both!(self, q => q.capacity())
    }
    /// what `iter()` reports, in iteration order
    pub fn contents(&self) -> Vec<Triple> {
        both!(self, q => q.iter().map(|(k, p)| (k.id(), p.v, k.payload)).collect())
    }
    pub fn snapshot(&self) -> VerifSnapshot {
        both!(self, q => q.verif_snapshot())
    }
    pub fn slot(&self, i: usize) -> Option<Triple> {
        both!(self, q => q.verif_slot(i).map(|(k, p)| (k.id(), p.v, k.payload)))
    }
    /// peek at one end; a PriorityQueue has only the Max end
    pub fn peek(&self, e: End) -> Option<Triple> {
        match self {
            AnyQ::Pq(q) => q.peek(),
            AnyQ::Dpq(q) => match e {
                End::Min => q.peek_min(),
                End::Max => q.peek_max(),
            },
        }
        .map(|(k, p)| (k.id(), p.v, k.payload))
    }
    pub fn pop(&mut self, e: End) -> Option<(Key, Prio)> {
        match self {
            AnyQ::Pq(q) => q.pop(),
            AnyQ::Dpq(q) => match e {
                End::Min => q.pop_min(),
                End::Max => q.pop_max(),
            },
        }
    }
    pub fn pop_if<F: FnOnce(&mut Key, &mut Prio) -> bool>(&mut self, e: End, f: F) -> Option<(Key, Prio)> {
        match self {
            AnyQ::Pq(q) => q.pop_if(f),
            AnyQ::Dpq(q) => match e {
                End::Min => q.pop_min_if(f),
                End::Max => q.pop_max_if(f),
            },
        }
    }
    pub fn peek_mut(&mut self, e: End) -> Option<(&mut Key, &Prio)> {
        match self {
            AnyQ::Pq(q) => q.peek_mut(),
            AnyQ::Dpq(q) => match e {
                End::Min => q.peek_min_mut(),
                End::Max => q.peek_max_mut(),
            },
        }
    }
    pub fn push(&mut self, k: Key, p: Prio) -> Option<Prio> {
        both!(self, q => q.push(k, p))
    }
    pub fn push_increase(&mut self, k: Key, p: Prio) -> Option<Prio> {
        both!(self, q => q.push_increase(k, p))
    }
    pub fn push_decrease(&mut self, k: Key, p: Prio) -> Option<Prio> {
        both!(self, q => q.push_decrease(k, p))
    }
    pub fn change_priority_owned(&mut self, k: &Key, p: Prio) -> Option<Prio> {
        both!(self, q => q.change_priority(k, p))
    }
    pub fn change_priority_borrowed(&mut self, k: &KeyId, p: Prio) -> Option<Prio> {
        both!(self, q => q.change_priority(k, p))
    }
    pub fn change_priority_by_owned<F: FnOnce(&mut Prio)>(&mut self, k: &Key, f: F) -> bool {
        both!(self, q => q.change_priority_by(k, f))
    }
    pub fn change_priority_by_borrowed<F: FnOnce(&mut Prio)>(&mut self, k: &KeyId, f: F) -> bool {
        both!(self, q => q.change_priority_by(k, f))
    }
    pub fn remove_owned(&mut self, k: &Key) -> Option<(Key, Prio)> {
        both!(self, q => q.remove(k))
    }
    pub fn remove_borrowed(&mut self, k: &KeyId) -> Option<(Key, Prio)> {
        both!(self, q => q.remove(k))
    }
    pub fn get_owned(&self, k: &Key) -> Option<Triple> {
        both!(self, q => q.get(k)).map(|(k, p)| (k.id(), p.v, k.payload))
    }
    pub fn get_borrowed(&self, k: &KeyId) -> Option<Triple> {
        both!(self, q => q.get(k)).map(|(k, p)| (k.id(), p.v, k.payload))
    }
    pub fn get_priority_owned(&self, k: &Key) -> Option<i32> {
        both!(self, q => q.get_priority(k)).map(|p| p.v)
    }
    pub fn get_priority_borrowed(&self, k: &KeyId) -> Option<i32> {
        both!(self, q => q.get_priority(k)).map(|p| p.v)
    }
    pub fn get_mut_owned(&mut self, k: &Key) -> Option<(&mut Key, &Prio)> {
        both!(self, q => q.get_mut(k))
    }
    pub fn get_mut_borrowed(&mut self, k: &KeyId) -> Option<(&mut Key, &Prio)> {
        both!(self, q => q.get_mut(k))
    }
    pub fn retain<F: FnMut(&Key, &Prio) -> bool>(&mut self, f: F) {
        both!(self, q => q.retain(f))
    }
    pub fn retain_mut<F: FnMut(&mut Key, &mut Prio) -> bool>(&mut self, f: F) {
        both!(self, q => q.retain_mut(f))
    }
    pub fn clear(&mut self) {
        both!(self, q => q.clear())
    }
    pub fn shrink_to_fit(&mut self) {
        both!(self, q => q.shrink_to_fit())
    }
    pub fn reserve(&mut self, n: usize) {
        both!(self, q => q.reserve(n))
    }
    pub fn reserve_exact(&mut self, n: usize) {
        both!(self, q => q.reserve_exact(n))
    }
    pub fn try_reserve(&mut self, n: usize) -> Result<(), priority_queue::TryReserveError> {
        both!(self, q => q.try_reserve(n))
    }
    pub fn try_reserve_exact(&mut self, n: usize) -> Result<(), priority_queue::TryReserveError> {
        both!(self, q => q.try_reserve_exact(n))
    }
    pub fn extend<T: IntoIterator<Item = (Key, Prio)>>(&mut self, it: T) {
        both!(self, q => q.extend(it))
    }
    /// append `other` (same kind; converted first if not)
    pub fn append(&mut self, other: &mut AnyQ) {
        match (self, other) {
            (AnyQ::Pq(a), AnyQ::Pq(b)) => a.append(b),
            (AnyQ::Dpq(a), AnyQ::Dpq(b)) => a.append(b),
            _ => panic!("harness: append of different kinds"),
        }
    }
    pub fn convert(self) -> AnyQ {
        match self {
            AnyQ::Pq(q) => AnyQ::Dpq(DPQ::from(q)),
            AnyQ::Dpq(q) => AnyQ::Pq(PQ::from(q)),
        }
    }
    pub fn into_vec(self) -> Vec<Key> {
        both!(self, q => q.into_vec())
    }
    pub fn into_pairs(self) -> Vec<(Key, Prio)> {
        both!(self, q => q.into_iter().collect())
    }
    pub fn from_vec(kind: Kind, v: Vec<(Key, Prio)>) -> AnyQ {
        match kind {
            Kind::Pq => AnyQ::Pq(PQ::from(v)),
            Kind::Dpq => AnyQ::Dpq(DPQ::from(v)),
        }
    }
    pub fn from_iter<T: IntoIterator<Item = (Key, Prio)>>(kind: Kind, it: T) -> AnyQ {
        match kind {
            Kind::Pq => AnyQ::Pq(it.into_iter().collect()),
            Kind::Dpq => AnyQ::Dpq(it.into_iter().collect()),
        }
    }
    pub fn to_json(&self) -> String {
        both!(self, q => serde_json::to_string(q).expect("harness: serialize"))
    }
    pub fn from_json(kind: Kind, s: &str) -> Result<AnyQ, String> {
        match kind {
            Kind::Pq => serde_json::from_str::<PQ>(s).map(AnyQ::Pq).map_err(|e| e.to_string()),
            Kind::Dpq => serde_json::from_str::<DPQ>(s).map(AnyQ::Dpq).map_err(|e| e.to_string()),
        }
    }
    pub fn clone_from_q(&mut self, src: &AnyQ) {
        match (self, src) {
            (AnyQ::Pq(a), AnyQ::Pq(b)) => a.clone_from(b),
            (AnyQ::Dpq(a), AnyQ::Dpq(b)) => a.clone_from(b),
            _ => panic!("harness: clone_from of different kinds"),
        }
    }
    /// (priority value, priority stamp) stored for an item
    pub fn prio_stamp(&self, k: &KeyId) -> Option<(i32, u32)> {
        both!(self, q => q.get_priority(k)).map(|p| (p.v, p.s))
    }
    /// `==`; the `!=` operator is evaluated too and must be its negation (an override of the
    /// provided `PartialEq::ne` may disagree): a disagreement is remembered and reported by the
    /// next `post_check` under C14
    pub fn eq_q(&self, o: &AnyQ) -> bool {
        let (e, n) = match (self, o) {
            (AnyQ::Pq(a), AnyQ::Pq(b)) => (a == b, a != b),
            (AnyQ::Dpq(a), AnyQ::Dpq(b)) => (a == b, a != b),
            _ => panic!("harness: eq of different kinds"),
        };
        if e == n {
            NE_DISAGREES.with(|c| c.set(Some(e)));
        }
        e
    }
}

/// All the ways the public API offers to obtain an empty queue.
#[derive(Clone, Copy, Debug, PartialEq, Eq, serde::Serialize, serde::Deserialize)]
pub enum Ctor {
    WithHasher,
    WithCapacityAndHasher(usize),
    Default,
    WithDefaultHasher,
    WithCapacityAndDefaultHasher(usize),
    FromEmptyVec,
    FromEmptyIter,
    FromOtherKind,
}

pub fn construct(kind: Kind, c: Ctor) -> AnyQ {
    let h = DynState::default;
    match kind {
        Kind::Pq => AnyQ::Pq(match c {
            Ctor::WithHasher => PQ::with_hasher(h()),
            Ctor::WithCapacityAndHasher(n) => PQ::with_capacity_and_hasher(n, h()),
            Ctor::Default => PQ::default(),
            Ctor::WithDefaultHasher => PQ::with_default_hasher(),
            Ctor::WithCapacityAndDefaultHasher(n) => PQ::with_capacity_and_default_hasher(n),
            Ctor::FromEmptyVec => PQ::from(Vec::new()),
            Ctor::FromEmptyIter => std::iter::empty().collect(),
            Ctor::FromOtherKind => PQ::from(DPQ::with_hasher(h())),
        }),
        Kind::Dpq => AnyQ::Dpq(match c {
            Ctor::WithHasher => DPQ::with_hasher(h()),
            Ctor::WithCapacityAndHasher(n) => DPQ::with_capacity_and_hasher(n, h()),
            Ctor::Default => DPQ::default(),
            Ctor::WithDefaultHasher => DPQ::with_default_hasher(),
            Ctor::WithCapacityAndDefaultHasher(n) => DPQ::with_capacity_and_default_hasher(n),
            Ctor::FromEmptyVec => DPQ::from(Vec::new()),
            Ctor::FromEmptyIter => std::iter::empty().collect(),
            Ctor::FromOtherKind => DPQ::from(PQ::with_hasher(h())),
        }),
    }
}
