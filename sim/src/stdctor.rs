//! The constructors that exist only for the std `RandomState` hasher — `new()` and
//! `with_capacity(n)` — cannot be reached through the run-time chosen `DynState` hasher of the
//! main simulator. Short histories on `Queue<u32, i32>` built by them, both kinds, every return
//! value judged against the reference model (priorities only among ties), the capacity
//! inequalities of C17 after construction and after every capacity operation.
//! Used as a part of the C04 check ("starting from any constructor") and of the C17 check.

use crate::engines::{REAL, STUBBED};
use crate::exec::{C04, C17};
use crate::orch::*;
use crate::rng::{mix, Rng};
use crate::types::*;
use priority_queue::{DoublePriorityQueue, PriorityQueue};
use serde::{Deserialize, Serialize};
use serde_json::json;
use std::collections::BTreeMap;

#[derive(Clone, Copy, Debug, PartialEq, Eq, Serialize, Deserialize)]
pub enum SOp {
    Push(u32, i32),
    PopMax,
    PopMin,
    Change(u32, i32),
    Remove(u32),
    Reserve(usize),
    ReserveExact(usize),
    TryReserve(usize),
    Shrink,
    Extend(u32, u32),
    Clear,
    DrainAll,
    /// collect into a new queue of the same kind with `with_capacity(n)`, carry on with it
    Rebuild(usize),
}

#[derive(Clone, Debug, Serialize, Deserialize)]
pub struct StdBody {
    pub dpq: bool,
    /// None: `new()`, Some(n): `with_capacity(n)`
    pub cap: Option<usize>,
    pub ops: Vec<SOp>,
}

type Problem = (u32, &'static str, String);

macro_rules! std_case {
    ($Q:ident, $b:expr, $dpq:tt) => {{
        let b: &StdBody = $b;
        let mut problem: Option<Problem> = None;
        let mut q: $Q<u32, i32> = match b.cap {
            None => $Q::new(),
            Some(n) => $Q::with_capacity(n),
        };
        let mut model: BTreeMap<u32, i32> = BTreeMap::new();
        if !q.is_empty() || q.len() != 0 || q.iter().next().is_some() {
            problem = Some((C04 | C17, "ctor_not_empty", format!("a queue built by {:?} is not empty: len()={}", b.cap, q.len())));
        }
        if let Some(n) = b.cap {
            if q.capacity() < n {
                problem = Some((C17, "with_capacity_too_small", format!("with_capacity({}) gives capacity() = {}", n, q.capacity())));
            }
        }
        'ops: for (n, op) in b.ops.iter().enumerate() {
            if problem.is_some() {
                break;
            }
            let fail = |tags: u32, class: &'static str, msg: String| Some((tags, class, format!("op {} ({:?}): {}", n, op, msg)));
            match *op {
                SOp::Push(k, p) => {
                    let r = q.push(k, p);
                    let want = model.insert(k, p);
                    if r != want {
                        problem = fail(C04 | C17, "ret_push", format!("push returned {:?}, the model says {:?}", r, want));
                    }
                }
                SOp::PopMax | SOp::PopMin => {
                    let want_max = *op == SOp::PopMax || !$dpq;
                    let want = if want_max { model.values().max().cloned() } else { model.values().min().cloned() };
                    let r = std_pop!(q, want_max, $dpq);
                    match (r, want) {
                        (None, None) => {}
                        (Some((i, p)), Some(w)) if p == w && model.get(&i) == Some(&p) => {
                            model.remove(&i);
                        }
                        (r, w) => {
                            problem = fail(C04 | C17, "ret_pop", format!("pop returned {:?}, the extreme stored priority is {:?}", r, w));
                            break 'ops;
                        }
                    }
                }
                SOp::Change(k, p) => {
                    let r = q.change_priority(&k, p);
                    let want = if model.contains_key(&k) { model.insert(k, p) } else { None };
                    if r != want {
                        problem = fail(C04 | C17, "ret_change", format!("change_priority returned {:?}, the model says {:?}", r, want));
                    }
                }
                SOp::Remove(k) => {
                    let r = q.remove(&k);
                    let want = model.remove(&k).map(|p| (k, p));
                    if r != want {
                        problem = fail(C04 | C17, "ret_remove", format!("remove returned {:?}, the model says {:?}", r, want));
                    }
                }
                SOp::Reserve(m) => {
                    q.reserve(m);
                    if q.capacity() < q.len() + m {
                        problem = fail(C17, "cap_reserve", format!("capacity() = {} < len() + {} = {}", q.capacity(), m, q.len() + m));
                    }
                }
                SOp::ReserveExact(m) => {
                    q.reserve_exact(m);
                    if q.capacity() < q.len() + m {
                        problem = fail(C17, "cap_reserve", format!("capacity() = {} < len() + {} = {}", q.capacity(), m, q.len() + m));
                    }
                }
                SOp::TryReserve(m) => {
                    if q.try_reserve(m).is_ok() && q.capacity() < q.len() + m {
                        problem = fail(C17, "cap_reserve", format!("try_reserve said Ok, capacity() = {} < len() + {} = {}", q.capacity(), m, q.len() + m));
                    }
                }
                SOp::Shrink => {
                    q.shrink_to_fit();
                    if q.capacity() < q.len() {
                        problem = fail(C17, "cap_shrink", format!("capacity() = {} < len() = {}", q.capacity(), q.len()));
                    }
                }
                SOp::Extend(from, count) => {
                    q.extend((from..from + count).map(|k| (k, k as i32 % 5 - 2)));
                    for k in from..from + count {
                        model.insert(k, k as i32 % 5 - 2);
                    }
                }
                SOp::Clear => {
                    q.clear();
                    model.clear();
                }
                SOp::DrainAll => {
                    let mut got: Vec<(u32, i32)> = q.drain().collect();
                    got.sort();
                    let want: Vec<(u32, i32)> = model.iter().map(|(k, v)| (*k, *v)).collect();
                    if got != want {
                        problem = fail(C04 | C17, "ret_drain", format!("drain yielded {:?}, the model holds {:?}", got, want));
                    }
                    model.clear();
                }
                SOp::Rebuild(m) => {
                    let mut q2: $Q<u32, i32> = $Q::with_capacity(m);
                    if q2.capacity() < m {
                        problem = fail(C17, "with_capacity_too_small", format!("with_capacity({}) gives capacity() = {}", m, q2.capacity()));
                    }
                    for (i, p) in q.drain() {
                        q2.push(i, p);
                    }
                    q = q2;
                }
            }
            if problem.is_some() {
                break;
            }
            // contents, length and the extremes after every operation
            let mut got: Vec<(u32, i32)> = q.iter().map(|(i, p)| (*i, *p)).collect();
            got.sort();
            let want: Vec<(u32, i32)> = model.iter().map(|(k, v)| (*k, *v)).collect();
            if got != want || q.len() != want.len() || q.is_empty() != want.is_empty() {
                problem = fail(C04 | C17, "contents", format!("contents {:?} (len() = {}), the model holds {:?}", got, q.len(), want));
                break;
            }
            let (mx, mn) = std_peeks!(q, $dpq);
            if mx != model.values().max().cloned() || ($dpq && mn != model.values().min().cloned()) {
                problem = fail(C04 | C17, "extreme", format!("peeks report max {:?} min {:?}, the model holds {:?}", mx, mn, want));
            }
        }
        problem
    }};
}
macro_rules! std_pop {
    ($q:ident, $max:expr, true) => {
        if $max {
            $q.pop_max()
        } else {
            $q.pop_min()
        }
    };
    ($q:ident, $max:expr, false) => {
        $q.pop()
    };
}
macro_rules! std_peeks {
    ($q:ident, true) => {
        ($q.peek_max().map(|x| *x.1), $q.peek_min().map(|x| *x.1))
    };
    ($q:ident, false) => {
        ($q.peek().map(|x| *x.1), None::<i32>)
    };
}

/// Ok(None): clean; Ok(Some((tags, class, msg))): an oracle fired; Err: the crate panicked
pub fn run_std_case(b: &StdBody) -> Result<Option<Problem>, String> {
    disarm_all();
    let r = guarded(|| if b.dpq { std_case!(DoublePriorityQueue, b, true) } else { std_case!(PriorityQueue, b, false) });
    match r {
        Ok(p) => Ok(p),
        Err(Caught::Other(m, l)) => Err(format!("{} @ {}", m, l)),
        Err(o) => Err(format!("{:?}", o)),
    }
}

pub struct StdCtorEngine {
    pub prop: &'static str,
    pub focus: u32,
    pub quick_runs: u64,
    pub thorough_runs: u64,
}

impl StdCtorEngine {
    fn judge(&self, b: &StdBody) -> Result<Option<FailRec>, String> {
        match run_std_case(b) {
            Ok(None) => Ok(None),
            Ok(Some((tags, class, msg))) => {
                if tags & self.focus != 0 {
                    Ok(Some(FailRec { props: self.prop.into(), class: class.into(), msg: format!("{} built by {}: {}", if b.dpq { "DoublePriorityQueue<u32, i32>" } else { "PriorityQueue<u32, i32>" }, b.cap.map_or("new()".to_string(), |n| format!("with_capacity({})", n)), msg), step: 0 }))
                } else {
                    Err(msg)
                }
            }
            // a panic in a fault-free history: C04's business, and C17's when the last operation manages capacity
            Err(m) => {
                let cap_op = matches!(b.ops.last(), Some(SOp::Reserve(_) | SOp::ReserveExact(_) | SOp::TryReserve(_) | SOp::Shrink | SOp::Rebuild(_)) | None);
                if self.focus & C04 != 0 || (self.focus & C17 != 0 && cap_op) {
                    Ok(Some(FailRec { props: self.prop.into(), class: "panic".into(), msg: format!("a fault-free history on a queue built by {:?} panicked: {}", b.cap, m), step: 0 }))
                } else {
                    Err(m)
                }
            }
        }
    }
}

impl Engine for StdCtorEngine {
    fn prop(&self) -> &'static str {
        self.prop
    }
    fn info(&self) -> EngineInfo {
        EngineInfo {
            level: "exploration",
            unit: "short histories on Queue<u32, i32> with the std RandomState hasher, built by new() / with_capacity(n)",
            rule: "both kinds; with_capacity amounts 0, 1, 2, 7, 8, 64, 1000 or seeded; push / pop (both ends) / change_priority / remove / reserve / reserve_exact / try_reserve / shrink_to_fit / extend / clear / drain / rebuild into a with_capacity(m) queue; every return value, the contents, the length and the extremes against the reference model after every step; capacity() >= n after with_capacity(n), >= len() + m after a reservation, >= len() after shrink_to_fit. Non-trivial = >= 4 operations reaching >= 3 elements; distinct = digest of the case".into(),
            real: REAL.to_vec(),
            stubbed: STUBBED.to_vec(),
            assumptions: vec!["RandomState's keys come from the OS and are not controlled; nothing compared here may depend on them (which element is returned among equal priorities is not compared)".into()],
            fault_kinds: vec![],
            exhaustive_note: None,
        }
    }
    fn runs(&self, tier: Tier) -> u64 {
        match tier {
            Tier::Quick => self.quick_runs,
            Tier::Thorough => self.thorough_runs,
        }
    }
    fn run_one(&self, seed: u64, idx: u64, _tier: Tier, acc: &mut Acc) {
        let mut r = Rng::new(mix(seed, idx) ^ 0x57DC);
        let n = 1 + r.usize(16);
        let cap = match r.below(4) {
            0 => None,
            _ => Some(match r.below(9) {
                0 => 0,
                1 => 1,
                2 => 2,
                3 => 7,
                4 => 8,
                5 => 64,
                6 => 1000,
                _ => r.usize(40),
            }),
        };
        let mut size = 0usize;
        let mut peak = 0usize;
        let ops: Vec<SOp> = (0..n)
            .map(|_| {
                let k = r.below(14) as u32;
                let p = r.range(-3, 3) as i32;
                let op = match r.below(24) {
                    0..=8 => SOp::Push(k, p),
                    9 | 10 => SOp::PopMax,
                    11 => SOp::PopMin,
                    12 | 13 => SOp::Change(k, p),
                    14 => SOp::Remove(k),
                    15 => SOp::Reserve(r.usize(70)),
                    16 => SOp::ReserveExact(r.usize(70)),
                    17 => SOp::TryReserve(r.usize(70)),
                    18 => SOp::Shrink,
                    19 => SOp::Extend(20 + k, 1 + r.below(40) as u32),
                    20 => SOp::Clear,
                    21 => SOp::DrainAll,
                    _ => SOp::Rebuild(r.usize(24)),
                };
                match op {
                    SOp::Push(..) => size += 1,
                    SOp::Extend(_, c) => size += c as usize,
                    SOp::Clear | SOp::DrainAll => size = 0,
                    _ => {}
                }
                peak = peak.max(size);
                op
            })
            .collect();
        let body = StdBody { dpq: idx % 2 == 1, cap, ops };
        let text = serde_json::to_string(&body).unwrap();
        let d = text.bytes().fold(0xcbf2_9ce4_8422_2325u64, |h, b| (h ^ b as u64).wrapping_mul(0x100_0000_01b3));
        acc.counters.insert("last_digest".into(), d);
        if track_level() >= 2 {
            track_line(2, &format!("B {}", text));
        }
        acc.runs += 1;
        acc.steps += body.ops.len() as u64;
        acc.bump("probes", if cap.is_some() { "std_with_capacity" } else { "std_new" }, 1);
        match self.judge(&body) {
            Err(e) => {
                acc.abandoned += 1;
                if acc.abandoned_samples.len() < 3 {
                    acc.abandoned_samples.push(format!("run {}: {}", idx, e));
                }
            }
            Ok(f) => {
                if body.ops.len() >= 4 && peak >= 3 {
                    acc.nontrivial_runs += 1;
                    acc.digests.push(d);
                }
                if acc.samples.len() < 1 && body.ops.len() <= 6 && peak >= 3 {
                    acc.samples.push(json!({"run": idx, "case": body, "outcome": "clean"}));
                }
                if let Some(f) = f {
                    acc.violations.push(Case { property: self.prop.into(), seed, run: idx, body: serde_json::to_value(&body).unwrap(), fail: Some(f), minimised: false, original_steps: 0 });
                }
            }
        }
    }
    fn replay(&self, body: &serde_json::Value) -> Result<Option<FailRec>, String> {
        let b: StdBody = serde_json::from_value(body.clone()).map_err(|e| e.to_string())?;
        Ok(self.judge(&b).unwrap_or(None))
    }
    fn shrink_candidates(&self, body: &serde_json::Value, _fail: &FailRec) -> Vec<serde_json::Value> {
        let b: StdBody = match serde_json::from_value(body.clone()) {
            Ok(b) => b,
            Err(_) => return Vec::new(),
        };
        let mut out = Vec::new();
        for i in 0..b.ops.len() {
            let mut c = b.clone();
            c.ops.remove(i);
            out.push(c);
        }
        for i in 0..b.ops.len() {
            if let SOp::Extend(f, c) = b.ops[i] {
                if c > 1 {
                    let mut x = b.clone();
                    x.ops[i] = SOp::Extend(f, c / 2);
                    out.push(x);
                }
            }
        }
        if let Some(n) = b.cap {
            if n > 0 {
                let mut c = b.clone();
                c.cap = Some(n / 2);
                out.push(c);
            }
        }
        out.into_iter().map(|c| serde_json::to_value(&c).unwrap()).collect()
    }
    fn abort_is_violation(&self, _body: &serde_json::Value, class: &str) -> bool {
        class.starts_with("abort_unsafe") || class.starts_with("abort_heap") || class.starts_with("abort_signal")
    }
    fn size_of(&self, body: &serde_json::Value) -> usize {
        body.get("ops").and_then(|s| s.as_array()).map_or(0, |a| a.len())
    }
}
