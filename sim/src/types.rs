//! Instrumented item and priority types: the S1 seam (user callbacks) of the simulator.
//!
//! * every `Ord::cmp` on a `Prio` ticks the simulated clock;
//! * every callback class consults the thread-local fault plan and may panic with an
//!   `Injected` payload (the library analogue of "crash at an arbitrary instant");
//! * every `Key`/`Prio` value owns a `Token` registered in a thread-local ledger, so that
//!   double drops and leaks are visible without any unsafe code in the harness.

use std::borrow::Borrow;
use std::cell::{Cell, RefCell};
use std::cmp::Ordering;
use std::hash::{Hash, Hasher};

// ------------------------------------------------------------------------------------------
// callback classes and the fault plan

#[derive(Clone, Copy, Debug, PartialEq, Eq, PartialOrd, Ord, serde::Serialize, serde::Deserialize)]
pub enum Cb {
    Cmp = 0,
    Hash = 1,
    Eq = 2,
    CloneKey = 3,
    ClonePrio = 4,
    Predicate = 5,
    Setter = 6,
    SourceNext = 7,
    LoopBody = 8,
    PrioEq = 9,
}
pub const N_CB: usize = 10;
pub const ALL_CB: [Cb; N_CB] = [
    Cb::Cmp,
    Cb::Hash,
    Cb::Eq,
    Cb::CloneKey,
    Cb::ClonePrio,
    Cb::Predicate,
    Cb::Setter,
    Cb::SourceNext,
    Cb::LoopBody,
    Cb::PrioEq,
];

impl Cb {
    pub fn name(self) -> &'static str {
        match self {
            Cb::Cmp => "cmp",
            Cb::Hash => "hash",
            Cb::Eq => "eq",
            Cb::CloneKey => "clone_key",
            Cb::ClonePrio => "clone_prio",
            Cb::Predicate => "predicate",
            Cb::Setter => "setter",
            Cb::SourceNext => "source_next",
            Cb::LoopBody => "loop_body",
            Cb::PrioEq => "prio_eq",
        }
    }
}

/// Panic payload of an injected fault.
#[derive(Debug, Clone, Copy)]
pub struct Injected {
    pub class: Cb,
}

/// Panic payload used when the per-operation tick budget is exhausted (a hang on a corrupted
/// queue is turned into an ordinary panic).
#[derive(Debug, Clone, Copy)]
pub struct TickBudget;

pub const DISARMED: i64 = -1;

/// light mode (Miri batches): short histories, few crash points, sparse full drains
pub static LIGHT: std::sync::atomic::AtomicBool = std::sync::atomic::AtomicBool::new(false);
/// thorough tier: a share of the runs is much longer / larger
pub static THOROUGH: std::sync::atomic::AtomicBool = std::sync::atomic::AtomicBool::new(false);
pub fn thorough() -> bool {
    THOROUGH.load(std::sync::atomic::Ordering::Relaxed)
}
pub fn light() -> bool {
    LIGHT.load(std::sync::atomic::Ordering::Relaxed)
}

pub struct SimTls {
    /// calls per class since the last `reset_counts`
    pub calls: [Cell<u64>; N_CB],
    /// countdown per class: panic when it reaches 0; DISARMED = never
    pub plan: [Cell<i64>; N_CB],
    /// number of injected panics per class since process start
    pub fired: [Cell<u64>; N_CB],
    /// comparator ticks allowed before TickBudget panics (0 = unlimited)
    pub tick_limit: Cell<u64>,
    /// total comparator ticks since thread start (the simulated clock)
    pub clock: Cell<u64>,
}

thread_local! {
    pub static SIM: SimTls = const { SimTls {
        calls: [const { Cell::new(0) }; N_CB],
        plan: [const { Cell::new(DISARMED) }; N_CB],
        fired: [const { Cell::new(0) }; N_CB],
        tick_limit: Cell::new(0),
        clock: Cell::new(0),
    } };
}

#[inline]
pub fn callback(class: Cb) {
    SIM.with(|s| {
        let c = &s.calls[class as usize];
        c.set(c.get() + 1);
        if class as usize == Cb::Cmp as usize {
            s.clock.set(s.clock.get() + 1);
            let lim = s.tick_limit.get();
            if lim != 0 && c.get() > lim && !std::thread::panicking() {
                s.tick_limit.set(0);
                std::panic::panic_any(TickBudget);
            }
        }
        let p = &s.plan[class as usize];
        let v = p.get();
        if v >= 0 {
            if v == 0 {
                if !std::thread::panicking() {
                    p.set(DISARMED);
                    let f = &s.fired[class as usize];
                    f.set(f.get() + 1);
                    std::panic::panic_any(Injected { class });
                }
            } else {
                p.set(v - 1);
            }
        }
    })
}

pub fn reset_counts() {
    SIM.with(|s| {
        for c in &s.calls {
            c.set(0)
        }
    })
}
pub fn count(class: Cb) -> u64 {
    SIM.with(|s| s.calls[class as usize].get())
}
pub fn ticks() -> u64 {
    count(Cb::Cmp)
}
pub fn clock() -> u64 {
    SIM.with(|s| s.clock.get())
}
pub fn arm(class: Cb, k: u64) {
    SIM.with(|s| s.plan[class as usize].set(k as i64))
}
pub fn disarm_all() {
    SIM.with(|s| {
        for p in &s.plan {
            p.set(DISARMED)
        }
        s.tick_limit.set(0);
    })
}
pub fn armed(class: Cb) -> bool {
    SIM.with(|s| s.plan[class as usize].get() >= 0)
}
pub fn set_tick_limit(n: u64) {
    SIM.with(|s| s.tick_limit.set(n))
}
pub fn fired_counts() -> [u64; N_CB] {
    SIM.with(|s| {
        let mut r = [0u64; N_CB];
        for (i, f) in s.fired.iter().enumerate() {
            r[i] = f.get();
        }
        r
    })
}

// ------------------------------------------------------------------------------------------
// live-object ledger

pub struct Ledger {
    epoch: u32,
    alive: Vec<bool>,
    live: u64,
    double_drops: u64,
    created: u64,
}

thread_local! {
    static LEDGER: RefCell<Ledger> = const { RefCell::new(Ledger { epoch: 1, alive: Vec::new(), live: 0, double_drops: 0, created: 0 }) };
}

/// Start a new accounting epoch: values created before it are ignored from now on.
pub fn ledger_reset() {
    LEDGER.with(|l| {
        let mut l = l.borrow_mut();
        l.epoch = l.epoch.wrapping_add(1).max(1);
        l.alive.clear();
        l.live = 0;
        l.double_drops = 0;
        l.created = 0;
    })
}
/// (values alive, double drops, values created) in the current epoch
pub fn ledger_status() -> (u64, u64, u64) {
    LEDGER.with(|l| {
        let l = l.borrow();
        (l.live, l.double_drops, l.created)
    })
}

#[derive(Debug)]
pub struct Token {
    serial: u32,
    epoch: u32,
}

impl Token {
    #[inline]
    pub fn new() -> Token {
        LEDGER.with(|l| {
            let mut l = l.borrow_mut();
            let serial = l.alive.len() as u32;
            l.alive.push(true);
            l.live += 1;
            l.created += 1;
            Token { serial, epoch: l.epoch }
        })
    }
}
impl Default for Token {
    fn default() -> Self {
        Token::new()
    }
}
impl Clone for Token {
    fn clone(&self) -> Token {
        Token::new()
    }
}
impl Drop for Token {
    #[inline]
    fn drop(&mut self) {
        // never panics: a drop of a dead serial is recorded, not reported here
        let _ = LEDGER.try_with(|l| {
            if let Ok(mut l) = l.try_borrow_mut() {
                if l.epoch != self.epoch {
                    return;
                }
                match l.alive.get(self.serial as usize).copied() {
                    Some(true) => {
                        l.alive[self.serial as usize] = false;
                        l.live -= 1;
                    }
                    _ => l.double_drops += 1,
                }
            }
        });
    }
}

// ------------------------------------------------------------------------------------------
// Key / KeyId

/// The part of a key that takes part in `Eq`/`Hash`; also the borrowed lookup form.
#[derive(Debug)]
#[repr(transparent)]
pub struct KeyId(pub u32);

impl PartialEq for KeyId {
    fn eq(&self, o: &KeyId) -> bool {
        callback(Cb::Eq);
        self.0 == o.0
    }
}
impl Eq for KeyId {}
impl Hash for KeyId {
    fn hash<H: Hasher>(&self, h: &mut H) {
        callback(Cb::Hash);
        h.write_u32(self.0)
    }
}

#[derive(Debug)]
pub struct Key {
    pub id: KeyId,
    /// does not take part in Eq/Hash
    pub payload: u32,
    pub tok: Token,
}

impl Key {
    pub fn new(id: u32, payload: u32) -> Key {
        Key { id: KeyId(id), payload, tok: Token::new() }
    }
    pub fn id(&self) -> u32 {
        self.id.0
    }
}
impl PartialEq for Key {
    fn eq(&self, o: &Key) -> bool {
        self.id == o.id
    }
}
impl Eq for Key {}
impl Hash for Key {
    fn hash<H: Hasher>(&self, h: &mut H) {
        self.id.hash(h)
    }
}
impl PartialOrd for Key {
    fn partial_cmp(&self, o: &Key) -> Option<Ordering> {
        Some(self.cmp(o))
    }
}
/// Not used by the crate: lets std's `Iterator::min` / `max` run on the pairs an iterator yields.
impl Ord for Key {
    fn cmp(&self, o: &Key) -> Ordering {
        self.id.0.cmp(&o.id.0)
    }
}
impl Borrow<KeyId> for Key {
    fn borrow(&self) -> &KeyId {
        &self.id
    }
}
impl Clone for Key {
    fn clone(&self) -> Key {
        callback(Cb::CloneKey);
        Key { id: KeyId(self.id.0), payload: self.payload, tok: Token::new() }
    }
}
impl serde::Serialize for Key {
    fn serialize<S: serde::Serializer>(&self, s: S) -> Result<S::Ok, S::Error> {
        s.serialize_u64(self.id.0 as u64 | ((self.payload as u64) << 32))
    }
}
impl<'de> serde::Deserialize<'de> for Key {
    fn deserialize<D: serde::Deserializer<'de>>(d: D) -> Result<Key, D::Error> {
        let v = u64::deserialize(d)?;
        Ok(Key::new(v as u32, (v >> 32) as u32))
    }
}

// ------------------------------------------------------------------------------------------
// Prio

#[derive(Debug)]
pub struct Prio {
    pub v: i32,
    /// does not take part in Ord/Eq: tells two equal priorities apart
    pub s: u32,
    pub tok: Token,
}
impl Prio {
    pub fn new(v: i32) -> Prio {
        Prio { v, s: 0, tok: Token::new() }
    }
    pub fn stamped(v: i32, s: u32) -> Prio {
        Prio { v, s, tok: Token::new() }
    }
}
impl PartialEq for Prio {
    fn eq(&self, o: &Prio) -> bool {
        callback(Cb::PrioEq);
        self.v == o.v
    }
}
impl Eq for Prio {}
impl PartialOrd for Prio {
    fn partial_cmp(&self, o: &Prio) -> Option<Ordering> {
        Some(self.cmp(o))
    }
}
impl Ord for Prio {
    fn cmp(&self, o: &Prio) -> Ordering {
        callback(Cb::Cmp);
        self.v.cmp(&o.v)
    }
}
impl Clone for Prio {
    fn clone(&self) -> Prio {
        callback(Cb::ClonePrio);
        Prio { v: self.v, s: self.s, tok: Token::new() }
    }
}
impl serde::Serialize for Prio {
    fn serialize<S: serde::Serializer>(&self, s: S) -> Result<S::Ok, S::Error> {
        s.serialize_i32(self.v)
    }
}
impl<'de> serde::Deserialize<'de> for Prio {
    fn deserialize<D: serde::Deserializer<'de>>(d: D) -> Result<Prio, D::Error> {
        Ok(Prio::new(i32::deserialize(d)?))
    }
}

// ------------------------------------------------------------------------------------------
// panic hook and panic classification

thread_local! {
    /// message and location of the last non-injected panic on this thread
    pub static LAST_PANIC: RefCell<Option<(String, String)>> = const { RefCell::new(None) };
    /// print non-injected panics to stderr (always on for abort-class messages)
    pub static HOOK_VERBOSE: Cell<bool> = const { Cell::new(false) };
    /// nesting depth of `guarded`: a panic outside of it is a harness bug and is always printed
    pub static GUARD_DEPTH: Cell<u32> = const { Cell::new(0) };
}

pub fn install_panic_hook() {
    std::panic::set_hook(Box::new(|info| {
        let pl = info.payload();
        if pl.is::<Injected>() || pl.is::<TickBudget>() {
            return;
        }
        let msg = if let Some(s) = pl.downcast_ref::<&str>() {
            s.to_string()
        } else if let Some(s) = pl.downcast_ref::<String>() {
            s.clone()
        } else {
            "<non-string panic payload>".to_string()
        };
        let loc = info.location().map(|l| format!("{}:{}", l.file(), l.line())).unwrap_or_default();
        // std's precondition failures and double panics abort right after the hook returns:
        // their message must reach stderr now or it is lost.
        let fatal = msg.contains("unsafe precondition")
            || msg.contains("panic in a destructor")
            || msg.contains("panicked while processing panic")
            || msg.contains("non-unwinding")
            || std::thread::panicking() && msg.contains("cannot unwind");
        let unguarded = GUARD_DEPTH.try_with(|d| d.get() == 0).unwrap_or(true);
        if fatal || unguarded || HOOK_VERBOSE.with(|v| v.get()) {
            eprintln!("PANIC: {} @ {}", msg, loc);
        }
        let _ = LAST_PANIC.try_with(|l| {
            if let Ok(mut l) = l.try_borrow_mut() {
                *l = Some((msg, loc));
            }
        });
    }));
}

#[derive(Debug, Clone, PartialEq, Eq)]
pub enum Caught {
    Injected(Cb),
    TickBudget,
    /// a panic not made by the harness: (message, location)
    Other(String, String),
}

pub fn classify_panic(p: Box<dyn std::any::Any + Send>) -> Caught {
    if let Some(i) = p.downcast_ref::<Injected>() {
        return Caught::Injected(i.class);
    }
    if p.is::<TickBudget>() {
        return Caught::TickBudget;
    }
    let (m, l) = LAST_PANIC.with(|l| l.borrow_mut().take()).unwrap_or_else(|| {
        let m = if let Some(s) = p.downcast_ref::<&str>() {
            s.to_string()
        } else if let Some(s) = p.downcast_ref::<String>() {
            s.clone()
        } else {
            "<unknown>".into()
        };
        (m, String::new())
    });
    Caught::Other(m, l)
}

/// Run `f`, catching any panic.
pub fn guarded<R>(f: impl FnOnce() -> R) -> Result<R, Caught> {
    GUARD_DEPTH.with(|d| d.set(d.get() + 1));
    let r = std::panic::catch_unwind(std::panic::AssertUnwindSafe(f));
    GUARD_DEPTH.with(|d| d.set(d.get().saturating_sub(1)));
    match r {
        Ok(r) => Ok(r),
        Err(p) => Err(classify_panic(p)),
    }
}
