//! Engines: how each property's runs are generated, executed, replayed and shrunk.

use crate::exec::*;
use crate::hist::*;
use crate::orch::*;
use crate::queue::Kind;
use crate::rng::{mix, Rng};
use crate::steps::*;
use serde_json::json;

pub const REAL: [&str; 5] = ["priority-queue crate built from /repo's working tree (all of src/)", "indexmap", "hashbrown", "std::vec / alloc", "serde_json + serde (serde paths only)"];
pub const STUBBED: [&str; 8] = [
    "item type Key (Eq/Hash on id only, payload outside Eq/Hash, drop ledger)",
    "priority type Prio (Ord::cmp ticks the simulated clock and consults the fault plan)",
    "BuildHasher (seeded SipHash / multiplicative / all-colliding / real RandomState)",
    "global allocator wrapper (memory ceiling 1 GiB, failure at the k-th allocation)",
    "closures passed as predicates and setters",
    "source iterators of extend / FromIterator (size_hint reports independent of the data)",
    "serialized bytes fed to Deserialize",
    "reference model (BTreeMap item -> (priority, payload))",
];

pub struct HistEngine {
    pub prop: &'static str,
    pub focus: u32,
    pub kind: Option<Kind>,
    pub quick_runs: u64,
    pub thorough_runs: u64,
    pub huge_hints: bool,
    pub alloc_faults: bool,
    pub level: &'static str,
}

impl HistEngine {
    fn opts(&self) -> HistOpts {
        HistOpts { focus: self.focus, snapshot: true, trace: false, huge_hints: self.huge_hints, alloc_faults: self.alloc_faults, amplify: true }
    }
}

fn fail_rec(f: &Fail, step: usize) -> FailRec {
    FailRec { props: mask_names(f.props), class: f.class.to_string(), msg: f.msg.clone(), step }
}

pub fn record_hist(acc: &mut Acc, prop: &str, seed: u64, idx: u64, cfg: &RunCfg, r: RunResult) {
    acc.runs += 1;
    acc.steps += r.steps.len() as u64;
    acc.ticks += r.ticks;
    acc.foreign_nonfatal += r.foreign_nonfatal;
    for (k, v) in &r.probes {
        acc.bump("probes", k, *v);
    }
    for st in &r.steps {
        acc.bump("fams", st.fam().name(), 1);
    }
    acc.states.extend(r.sigs.iter().copied());
    acc.counters.insert("last_digest".into(), r.digest);
    if r.nontrivial {
        acc.nontrivial_runs += 1;
        acc.digests.push(r.digest);
    }
    let outcome = match &r.end {
        RunEnd::Clean => "clean".to_string(),
        RunEnd::Violation { step, fail } => format!("violation at step {}: [{}] {}", step, fail.class, fail.msg),
        RunEnd::Abandoned { step, why } => format!("abandoned at step {}: {}", step, why),
    };
    if acc.samples.len() < 2 && r.nontrivial && r.steps.len() <= 14 {
        acc.samples.push(json!({"run": idx, "cfg": {"kind": cfg.kind, "hasher": cfg.hasher, "ctor": cfg.ctor, "universe": cfg.universe, "palette": cfg.palette}, "steps": r.steps, "outcome": outcome}));
    }
    match r.end {
        RunEnd::Clean => {}
        RunEnd::Abandoned { why, step } => {
            acc.abandoned += 1;
            if acc.abandoned_samples.len() < 3 {
                acc.abandoned_samples.push(format!("run {} step {}: {}", idx, step, why));
            }
        }
        RunEnd::Violation { step, fail } => {
            let upto = step.min(r.steps.len().saturating_sub(1));
            let steps: Vec<Step> = r.steps[..=upto.min(r.steps.len() - 1).max(0)].to_vec();
            let steps = if step >= r.steps.len() { r.steps.clone() } else { steps };
            acc.violations.push(Case { property: prop.to_string(), seed, run: idx, body: json!({"cfg": cfg, "steps": steps}), fail: Some(fail_rec(&fail, step)), minimised: false, original_steps: 0 });
        }
    }
}

fn parse_hist_body(body: &serde_json::Value) -> Result<(RunCfg, Vec<Step>), String> {
    let cfg: RunCfg = serde_json::from_value(body.get("cfg").cloned().ok_or("no cfg")?).map_err(|e| e.to_string())?;
    let steps: Vec<Step> = serde_json::from_value(body.get("steps").cloned().ok_or("no steps")?).map_err(|e| e.to_string())?;
    Ok((cfg, steps))
}

impl Engine for HistEngine {
    fn prop(&self) -> &'static str {
        self.prop
    }
    fn info(&self) -> EngineInfo {
        EngineInfo {
            level: self.level,
            unit: "runs (one seeded history of public operations on one queue, every step mirrored on the reference model and followed by the oracles)",
            rule: nontrivial_rule(self.focus),
            real: REAL.to_vec(),
            stubbed: STUBBED.to_vec(),
            assumptions: vec![
                "sampling, not proof: a clean batch is evidence only".into(),
                "the reference model (a BTreeMap) and the oracles are the trusted base".into(),
                "undefined behaviour is visible natively only as an out-of-bounds unchecked access (std debug precondition checks), a crash signal or a drop imbalance".into(),
            ],
            fault_kinds: vec!["guard abandonment (drop after an arbitrary prefix)", "guard leak (mem::forget of drain / iter_mut guards)", "size_hint misreport (any legal report)", "allocation failure inside try_reserve*", "hasher choice incl. all-colliding"],
            exhaustive_note: None,
        }
    }
    fn runs(&self, tier: Tier) -> u64 {
        match tier {
            Tier::Quick => self.quick_runs,
            Tier::Thorough => self.thorough_runs,
        }
    }
    fn run_one(&self, seed: u64, idx: u64, _tier: Tier, acc: &mut Acc) {
        let mut rng = Rng::new(mix(seed, idx) ^ (self.focus as u64) << 32);
        let cfg = gen_cfg(&mut rng, self.focus, self.kind);
        let r = run_hist(&cfg, StepSrc::Gen(Gen::new(rng)), &self.opts());
        record_hist(acc, self.prop, seed, idx, &cfg, r);
    }
    fn replay(&self, body: &serde_json::Value) -> Result<Option<FailRec>, String> {
        let (cfg, steps) = parse_hist_body(body)?;
        let r = run_hist(&cfg, StepSrc::List(steps), &self.opts());
        Ok(match r.end {
            RunEnd::Violation { step, fail } => Some(fail_rec(&fail, step)),
            _ => None,
        })
    }
    fn shrink_candidates(&self, body: &serde_json::Value, fail: &FailRec) -> Vec<serde_json::Value> {
        match parse_hist_body(body) {
            Ok((cfg, steps)) => shrink_candidates(&cfg, &steps, fail.step.min(steps.len().saturating_sub(1))).into_iter().map(|(c, s)| json!({"cfg": c, "steps": s})).collect(),
            Err(_) => Vec::new(),
        }
    }
    fn abort_is_violation(&self, body: &serde_json::Value, class: &str) -> bool {
        let last = parse_hist_body(body).ok().and_then(|(_, s)| s.last().map(|s| s.fam()));
        let tags = match class {
            "abort_alloc_failure" => match last {
                Some(Fam::Extend) | Some(Fam::FromIter) => C04 | C07,
                Some(Fam::TryReserve) => C04 | C17,
                _ => 0,
            },
            "abort_stack_overflow" => C04,
            c if c.starts_with("abort_unsafe") || c.starts_with("abort_heap") || c.starts_with("abort_signal") => C04 | last.map_or(0, |f| if matches!(f, Fam::IterMut | Fam::IterMutLeak) { C09 } else { 0 }),
            _ => 0,
        };
        tags & self.focus != 0
    }
    fn size_of(&self, body: &serde_json::Value) -> usize {
        body.get("steps").and_then(|s| s.as_array()).map_or(0, |a| a.len())
    }
}

/// Several engines behind one property: run index -> part by weight.
pub struct Multi {
    pub prop: &'static str,
    pub parts: Vec<(u64, Box<dyn Engine>)>,
    pub level: &'static str,
}

impl Multi {
    fn part_of(&self, idx: u64) -> usize {
        let total: u64 = self.parts.iter().map(|p| p.0).sum();
        let mut r = idx % total.max(1);
        for (i, p) in self.parts.iter().enumerate() {
            if r < p.0 {
                return i;
            }
            r -= p.0;
        }
        0
    }
    fn split(body: &serde_json::Value) -> (usize, serde_json::Value) {
        (body.get("part").and_then(|p| p.as_u64()).unwrap_or(0) as usize, body.get("body").cloned().unwrap_or(serde_json::Value::Null))
    }
}

impl Engine for Multi {
    fn prop(&self) -> &'static str {
        self.prop
    }
    fn info(&self) -> EngineInfo {
        let mut i = self.parts[0].1.info();
        i.level = self.level;
        let mut rules = Vec::new();
        let mut units = Vec::new();
        for (k, (w, p)) in self.parts.iter().enumerate() {
            let pi = p.info();
            rules.push(format!("part {} (weight {}): {}", k, w, pi.rule));
            units.push(pi.unit);
            for f in pi.fault_kinds {
                if !i.fault_kinds.contains(&f) {
                    i.fault_kinds.push(f);
                }
            }
            for a in pi.assumptions {
                if !i.assumptions.contains(&a) {
                    i.assumptions.push(a);
                }
            }
            if pi.exhaustive_note.is_some() {
                i.exhaustive_note = pi.exhaustive_note;
            }
        }
        i.rule = rules.join(" || ");
        i
    }
    fn runs(&self, tier: Tier) -> u64 {
        self.parts.iter().map(|p| p.1.runs(tier)).sum()
    }
    fn run_one(&self, seed: u64, idx: u64, tier: Tier, acc: &mut Acc) {
        let p = self.part_of(idx);
        let before = acc.violations.len();
        self.parts[p].1.run_one(seed, idx, tier, acc);
        for v in acc.violations[before..].iter_mut() {
            v.body = json!({"part": p, "body": v.body});
            v.property = self.prop.to_string();
        }
        acc.bump("counters", &format!("runs_part_{}", p), 1);
    }
    fn replay(&self, body: &serde_json::Value) -> Result<Option<FailRec>, String> {
        let (p, b) = Multi::split(body);
        self.parts.get(p).ok_or("bad part")?.1.replay(&b)
    }
    fn shrink_candidates(&self, body: &serde_json::Value, fail: &FailRec) -> Vec<serde_json::Value> {
        let (p, b) = Multi::split(body);
        match self.parts.get(p) {
            Some(e) => e.1.shrink_candidates(&b, fail).into_iter().map(|c| json!({"part": p, "body": c})).collect(),
            None => Vec::new(),
        }
    }
    fn abort_is_violation(&self, body: &serde_json::Value, class: &str) -> bool {
        let (p, b) = Multi::split(body);
        // a tracked body is written by the part itself (unwrapped)
        if body.get("part").is_none() {
            return self.parts.iter().any(|e| e.1.abort_is_violation(body, class));
        }
        self.parts.get(p).map_or(false, |e| e.1.abort_is_violation(&b, class))
    }
    fn wrap_tracked(&self, idx: u64, body: serde_json::Value) -> serde_json::Value {
        json!({"part": self.part_of(idx), "body": body})
    }
    fn size_of(&self, body: &serde_json::Value) -> usize {
        let (p, b) = Multi::split(body);
        if body.get("part").is_none() {
            return self.parts[0].1.size_of(body);
        }
        self.parts.get(p).map_or(0, |e| e.1.size_of(&b))
    }
}

pub fn hist(prop: &'static str, kind: Option<Kind>, quick: u64, thorough: u64) -> HistEngine {
    HistEngine { prop, focus: prop_mask(prop), kind, quick_runs: quick, thorough_runs: thorough, huge_hints: false, alloc_faults: false, level: "exploration" }
}

pub fn engine_of(prop: &str) -> Option<Box<dyn Engine>> {
    Some(match prop {
        "C01" => Box::new(hist("C01", Some(Kind::Pq), 400_000, 8000000)),
        "C02" => Box::new(hist("C02", Some(Kind::Dpq), 400_000, 8000000)),
        "C03" => Box::new(hist("C03", None, 400_000, 8000000)),
        "C04" => Box::new(Multi {
            prop: "C04",
            level: "exploration",
            parts: vec![(9, Box::new(HistEngine { huge_hints: true, ..hist("C04", None, 400_000, 8000000) })), (1, Box::new(crate::stdctor::StdCtorEngine { prop: "C04", focus: C04, quick_runs: 44_000, thorough_runs: 880_000 }))],
        }),
        "C06" => Box::new(hist("C06", None, 300_000, 5333333)),
        "C08" => Box::new(Multi {
            prop: "C08",
            level: "exploration",
            parts: vec![(2, Box::new(hist("C08", None, 200_000, 4000000))), (1, Box::new(crate::twin::LatentEngine { prop: "C08", focus: C08, fams: vec![Fam::Retain, Fam::IterMut, Fam::PopIf], quick_runs: 100_000, thorough_runs: 1_500_000 }))],
        }),
        "C09" => Box::new(hist("C09", None, 300_000, 5333333)),
        "C11" => Box::new(Multi {
            prop: "C11",
            level: "exploration",
            parts: vec![(2, Box::new(hist("C11", None, 200_000, 4000000))), (1, Box::new(crate::twin::LatentEngine { prop: "C11", focus: C11, fams: vec![Fam::PushInc, Fam::PushDec], quick_runs: 100_000, thorough_runs: 1_500_000 }))],
        }),
        "C12" => Box::new(hist("C12", None, 300_000, 5333333)),
        "C13" => Box::new(hist("C13", None, 300_000, 5333333)),
        "C16" => Box::new(Multi {
            prop: "C16",
            level: "exploration",
            parts: vec![(1, Box::new(hist("C16", None, 150_000, 2666666))), (1, Box::new(crate::twin::FreshEngine { quick_runs: 150_000, thorough_runs: 2_000_000 })), (1, Box::new(crate::plain::PlainEngine { quick_runs: 150_000, thorough_runs: 2_000_000 }))],
        }),
        "C07" => Box::new(Multi {
            prop: "C07",
            level: "exploration",
            parts: vec![(1, Box::new(HistEngine { huge_hints: true, ..hist("C07", None, 70_000, 2666666) })), (1, Box::new(crate::diffhint::HintEngine { quick_runs: 70_000, thorough_runs: 2_000_000 })), (1, Box::new(crate::twin::LatentEngine { prop: "C07", focus: C07, fams: vec![Fam::Extend, Fam::Append, Fam::FromVec, Fam::FromIter, Fam::Convert], quick_runs: 70_000, thorough_runs: 1_200_000 }))],
        }),
        "C15" => Box::new(Multi {
            prop: "C15",
            level: "exploration",
            parts: vec![(1, Box::new(hist("C15", None, 100_000, 2000000))), (3, Box::new(crate::serdefault::SerdeEngine { quick_runs: 300_000, thorough_runs: 4_500_000 })), (1, Box::new(crate::twin::LatentEngine { prop: "C15", focus: C15, fams: vec![Fam::Serde], quick_runs: 100_000, thorough_runs: 1_500_000 }))],
        }),
        "C14" => Box::new(Multi {
            prop: "C14",
            level: "exploration",
            parts: vec![(1, Box::new(hist("C14", None, 100_000, 2000000))), (2, Box::new(crate::twin::CloneEngine { quick_runs: 200_000, thorough_runs: 3_000_000 }))],
        }),
        "C17" => Box::new(Multi {
            prop: "C17",
            level: "fault_enumeration",
            parts: vec![(1, Box::new(HistEngine { alloc_faults: true, ..hist("C17", None, 60_000, 2000000) })), (1, Box::new(crate::twin::CapEngine { quick_runs: 60_000, thorough_runs: 1_500_000 })), (1, Box::new(crate::stdctor::StdCtorEngine { prop: "C17", focus: C17, quick_runs: 60_000, thorough_runs: 1_500_000 }))],
        }),
        "C18" => Box::new(crate::twin::HashEngine { quick_runs: 120_000, thorough_runs: 2_000_000 }),
        "C05" => Box::new(crate::complexity::CxEngine { quick_runs: 1_200, thorough_runs: 1_200 }),
        "C10" => Box::new(crate::crash::CrashEngine { quick_runs: 150_000, thorough_runs: 3_000_000 }),
        _ => return None,
    })
}
