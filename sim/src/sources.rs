//! The S3 seam: a source of pairs whose `size_hint` is any legal report for what it will yield.

use crate::steps::Hint;
use crate::types::{callback, Cb, Key, Prio};

pub struct HintedSource {
    pairs: std::vec::IntoIter<(Key, Prio)>,
    hint: Hint,
    pub hints_asked: u32,
}

impl HintedSource {
    pub fn new(pairs: Vec<(Key, Prio)>, hint: Hint) -> HintedSource {
        HintedSource { pairs: pairs.into_iter(), hint, hints_asked: 0 }
    }
}

impl Iterator for HintedSource {
    type Item = (Key, Prio);
    fn next(&mut self) -> Option<(Key, Prio)> {
        callback(Cb::SourceNext);
        self.pairs.next()
    }
    fn size_hint(&self) -> (usize, Option<usize>) {
        let rem = self.pairs.len();
        let (lo, hi) = self.hint.report(rem);
        // legality is by construction; keep the assertion as a harness self-check
        debug_assert!(lo <= rem && hi.map_or(true, |h| h >= rem));
        (lo, hi)
    }
}
