#!/bin/bash
# tools/kill_matrix.sh [-P n]  — re-runs, for every change kept under /verif/seeded, the quick checks
# recorded for it (its own property's check first) against a scratch worktree with the patch
# applied, rewrites seeded/<id>/runs.txt and meta.json, and prints the kill matrix.
P="${1:-4}"
cd /verif/seeded || exit 2
for d in */; do
  id="${d%/}"
  prop=$(python3 -c "import json;print(json.load(open('/verif/seeded/$id/meta.agent.json')).get('property','${id:0:3}'))" 2>/dev/null || echo "${id:0:3}")
  others=$(grep -o ' C[0-9][0-9] exit' "/verif/seeded/$id/runs.txt" 2>/dev/null | awk '{print $1}' | sort -u | grep -v "^$prop$" | tr '\n' ' ')
  echo "$id $prop $others" | sed "s/ *$//"
done > /tmp/km-jobs.txt
run_one() {
  id="$1"; shift
  out=$(/verif/tools/try_mutant.sh "$id" "/verif/seeded/$id/patch.diff" "$@" 2>&1 | grep " exit=")
  { grep "confirmed=" "/verif/seeded/$id/runs.txt" | head -1; echo "$out"; } > "/verif/seeded/$id/runs.txt.new"
  mv "/verif/seeded/$id/runs.txt.new" "/verif/seeded/$id/runs.txt"
  echo "$out"
}
export -f run_one
cat /tmp/km-jobs.txt | xargs -P "$P" -L 1 bash -c 'run_one "$@"' _
python3 /verif/tools/seeded_meta.py > /tmp/km-summary.txt
cat /tmp/km-summary.txt
