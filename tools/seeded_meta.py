#!/usr/bin/env python3
"""Builds /verif/seeded/<id>/meta.json from the sub-agent's meta and the verifier's own runs."""
import json, os, re, glob
rows = []
for d in sorted(glob.glob('/verif/seeded/*/')):
    mid = os.path.basename(d.rstrip('/'))
    agent = {}
    try:
        agent = json.load(open(d + 'meta.agent.json'))
    except Exception:
        pass
    runs = open(d + 'runs.txt').read().splitlines() if os.path.exists(d + 'runs.txt') else []
    checks = {}
    confirmed = None
    for l in runs:
        m = re.match(r'(\S+) (C\d\d) exit=(\d+) ([\d.]+)s ?(?:violation \[(\w+)\])?', l)
        if m:
            checks[m.group(2)] = {"exit": int(m.group(3)), "seconds": float(m.group(4)), "violation_class": m.group(5)}
        elif 'confirmed=' in l:
            confirmed = l
    meta = {
        "id": mid,
        "property": agent.get("property", mid[:3]),
        "summary": agent.get("summary"),
        "needs": agent.get("needs"),
        "demo_cmd": agent.get("demo_cmd"),
        "origin": "written by an independent sub-agent that saw only the property text and a scratch worktree of /repo (nothing from /verif)",
        "confirmed_by_verifier": confirmed,
        "what_was_run": "tools/ingest_mutant.sh in a scratch worktree: demo on the unchanged tree (must pass), demo with the patch (must fail), the 81 existing tests + doctests with the patch (must pass), then the quick checks listed below with VERIF_REPO_PATH pointing at the patched copy",
        "base_commit": (open(d + 'base_commit').read().strip() if os.path.exists(d + 'base_commit') else "HEAD of /repo when ingested (patch applies to the current tree)"),
        "quick_checks": checks,
        "detected_by": sorted(k for k, v in checks.items() if v["exit"] == 1),
        "missed_by": sorted(k for k, v in checks.items() if v["exit"] == 0),
    }
    json.dump(meta, open(d + 'meta.json', 'w'), indent=1)
    rows.append((mid, meta["property"], meta["detected_by"], meta["missed_by"], (meta["summary"] or "")[:90]))
for r in rows:
    print(r)

with open('/verif/seeded/KILL_MATRIX.md','w') as f:
    f.write("# Kill matrix: independently written breaking changes vs. quick checks\n\n")
    f.write("Each change compiles and passes the 81 existing tests; `demo.rs` fails with it and passes without. ")
    f.write("Columns: checks whose quick tier reported a violation (exit 1) / ran clean (exit 0) against the patched scratch copy.\n\n")
    f.write("| id | written against | detected by | ran clean | change |\n|---|---|---|---|---|\n")
    for r in rows:
        f.write("| %s | %s | %s | %s | %s |\n" % (r[0], r[1], ' '.join(r[2]) or '—', ' '.join(r[3]) or '—', (r[4] or '').replace('|','/')))
    det=sum(1 for r in rows if r[2]); own=sum(1 for r in rows if r[1] in r[2])
    f.write("\n%d changes; %d detected by at least one check; %d by the check of the property they were written against.\n" % (len(rows), det, own))
