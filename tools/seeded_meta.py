#!/usr/bin/env python3
"""Builds /verif/seeded/<id>/meta.json from the sub-agent's meta and the verifier's own runs."""
import json, os, re, glob
rows = []
for d in sorted(glob.glob('/verif/seeded/*/')):
    mid = os.path.basename(d.rstrip('/'))
    agent = {}
    try:
        agent = json.load(open(d + 'meta.agent.json'))
    except Exception:
        pass
    runs = open(d + 'runs.txt').read().splitlines() if os.path.exists(d + 'runs.txt') else []
    checks = {}
    confirmed = None
    for l in runs:
        m = re.match(r'(\S+) (C\d\d) exit=(\d+) ([\d.]+)s ?(?:violation \[(\w+)\])?', l)
        if m:
            checks[m.group(2)] = {"exit": int(m.group(3)), "seconds": float(m.group(4)), "violation_class": m.group(5)}
        elif 'confirmed=' in l:
            confirmed = l
    meta = {
        "id": mid,
        "property": agent.get("property", mid[:3]),
        "summary": agent.get("summary"),
        "needs": agent.get("needs"),
        "demo_cmd": agent.get("demo_cmd"),
        "origin": "written by an independent sub-agent that saw only the property text and a scratch worktree of /repo (nothing from /verif)",
        "confirmed_by_verifier": confirmed,
        "what_was_run": "tools/ingest_mutant.sh in a scratch worktree: demo on the unchanged tree (must pass), demo with the patch (must fail), the 81 existing tests + doctests with the patch (must pass), then the quick checks listed below with VERIF_REPO_PATH pointing at the patched copy",
        "quick_checks": checks,
        "detected_by": sorted(k for k, v in checks.items() if v["exit"] == 1),
        "missed_by": sorted(k for k, v in checks.items() if v["exit"] == 0),
    }
    json.dump(meta, open(d + 'meta.json', 'w'), indent=1)
    rows.append((mid, meta["property"], meta["detected_by"], meta["missed_by"], (meta["summary"] or "")[:90]))
for r in rows:
    print(r)
