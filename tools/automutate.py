#!/usr/bin/env python3
"""Systematic single-site mutation of /repo's sources as a sensitivity measurement.

  tools/automutate.py gen                 list candidate mutants            -> /tmp/am/cands.json
  tools/automutate.py tests  [-j N]       which compile and pass the suite  -> /tmp/am/survivors.json
  tools/automutate.py checks [-j N]       run the quick checks on survivors -> /verif/seeded/AUTOMUTATION.md
                                          (staged: stops at the first check that reports)

Nothing is ever written to /repo: every mutant lives in a scratch worktree under /tmp/am/wt-<k>
(removed at the end), checks run through VERIF_REPO_PATH with VERIF_OUT under /tmp/am/out.
The serde paths are compiled (and the serde-feature tests run) for sites inside `mod serde`.
"""
import json, os, re, subprocess, sys, hashlib, shutil, time
from concurrent.futures import ThreadPoolExecutor

AM = '/tmp/am'
FILES = ['src/store.rs', 'src/priority_queue/mod.rs', 'src/priority_queue/iterators.rs',
         'src/double_priority_queue/mod.rs', 'src/double_priority_queue/iterators.rs', 'src/core_iterators.rs']
ORDER = ['C04', 'C03', 'C02', 'C01', 'C10', 'C07', 'C08', 'C13', 'C09', 'C16', 'C06', 'C11', 'C12', 'C14', 'C15', 'C17', 'C18', 'C05']
ENV = dict(os.environ, CARGO_NET_OFFLINE='true')
ENV.pop('RUST_BACKTRACE', None)

SWAPS = [('heapify_min', 'heapify_max'), ('bubble_up_min', 'bubble_up_max'), ('pop_min', 'pop_max'), ('find_min', 'find_max'),
         ('Ordering::Less', 'Ordering::Greater'), ('Less', 'Greater'), ('.max(', '.min('), ('next_back', 'next'), ('.last()', '.first()'),
         ('is_some()', 'is_none()'), ('.pop()', '.last().copied()'), ('up_heapify', 'heapify'), ('swap_remove', 'shift_remove')]
BINOPS = [(' < ', ' <= '), (' <= ', ' < '), (' > ', ' >= '), (' >= ', ' > '), (' == ', ' != '), (' != ', ' == '),
          (' && ', ' || '), (' || ', ' && '), (' + ', ' - '), (' - ', ' + '), (' * ', ' / '), (' / ', ' * '), (' % ', ' / ')]
CONSTS = [(r'\b0\b', '1'), (r'\b1\b', '0'), (r'\b1\b', '2'), (r'\b2\b', '3'), (r'\b2\b', '1'), (r'\b3\b', '2'), (r'\b4\b', '3'), (r'\btrue\b', 'false'), (r'\bfalse\b', 'true')]


def code_lines(path):
    """(line number, text, in_serde) for lines that are code: no comments, attributes, tests, docs"""
    out, depth_test, in_serde = [], None, False
    txt = open(path).read().split('\n')
    brace = 0
    serde_at = None
    for i, l in enumerate(txt):
        s = l.strip()
        if s.startswith('mod serde') or s.startswith('mod tests') or s.startswith('mod test'):
            serde_at = (brace, 'serde' if 'serde' in s else 'tests')
        opens, closes = l.count('{'), l.count('}')
        kind = serde_at[1] if serde_at else None
        brace += opens - closes
        if serde_at and brace <= serde_at[0] and closes:
            serde_at = None
        if kind == 'tests':
            continue
        if not s or s.startswith('//') or s.startswith('#[') or s.startswith('#!') or s.startswith('use ') or s.startswith('pub use '):
            continue
        if s.startswith('*') or s.startswith('/*'):
            continue
        code = l.split('//')[0]
        out.append((i, code, kind == 'serde'))
    return txt, out


def gen():
    os.makedirs(AM, exist_ok=True)
    cands = []
    for f in FILES:
        txt, lines = code_lines(os.path.join('/repo', f))
        for (i, code, serde) in lines:
            s = code.strip()
            muts = []
            # signatures, where clauses, type positions: only bodies are interesting
            if re.match(r'^(pub(\(crate\))? )?(unsafe )?(fn|impl|struct|enum|type|trait|where|const)\b', s) or s.startswith('I:') or s.startswith('P:') or s.startswith('H:') or s.startswith('Q:') or s.startswith('F:'):
                continue
            for a, b in BINOPS:
                for m in re.finditer(re.escape(a), code):
                    muts.append(('binop', code[:m.start()] + b + code[m.end():], '%s -> %s' % (a.strip(), b.strip())))
            for a, b in SWAPS:
                for x, y in ((a, b), (b, a)):
                    for m in re.finditer(re.escape(x), code):
                        # do not turn a longer identifier into nonsense
                        if x in ('Less', 'Greater') and code[max(0, m.start() - 10):m.start()].endswith('Ordering::'):
                            continue
                        if x == 'next' and (code[m.end():m.end() + 5] == '_back' or not code[m.start() - 1:m.start()] == '.'):
                            continue
                        if x == 'heapify' and (code[m.start() - 3:m.start()] == 'up_' or code[m.end():m.end() + 1] == '_'):
                            continue
                        muts.append(('swap', code[:m.start()] + y + code[m.end():], '%s -> %s' % (x, y)))
            for pat, b in CONSTS:
                for m in re.finditer(pat, code):
                    # skip tuple field accesses (.0 .1) and things like u32 / 2^k names
                    pre = code[max(0, m.start() - 1):m.start()]
                    if pre == '.' or pre.isalnum() or pre == '_':
                        continue
                    muts.append(('const', code[:m.start()] + b + code[m.end():], '%s -> %s' % (m.group(0), b)))
            # negation removal / insertion
            for m in re.finditer(r'!(?=[a-z(])', code):
                if code[m.start() - 1:m.start()].isalnum():  # macro!
                    continue
                muts.append(('neg', code[:m.start()] + code[m.end():], 'drop !'))
            m = re.match(r'^(\s*)(if|while) (?!let )(.*) \{$', code)
            if m and '&&' not in m.group(3) and '||' not in m.group(3):
                muts.append(('neg', '%s%s !(%s) {' % (m.group(1), m.group(2), m.group(3)), 'negate condition'))
            # statement deletion: a call statement on its own line
            if re.match(r'^\s*(self|store|map|heap|qp|ptr::|mem::|core::|std::|unsafe|\*)[A-Za-z0-9_.:*() \[\]&,+\-<>!=]*;$', code) and not s.startswith('let ') and 'return' not in s:
                muts.append(('delete', re.match(r'^\s*', code).group(0) + '{}', 'delete statement'))
            if re.match(r'^\s*self\.[a-z_.]*(size|len)[a-z_.]* [+-]= 1;$', code):
                muts.append(('delete', re.match(r'^\s*', code).group(0) + '{}', 'delete statement'))
            seen = set()
            for kind, new, what in muts:
                if new == code or new in seen:
                    continue
                seen.add(new)
                full = new + ('//' + txt[i].split('//', 1)[1] if '//' in txt[i] else '')
                cands.append({'file': f, 'line': i + 1, 'kind': kind, 'what': what, 'old': txt[i], 'new': full, 'serde': serde})
    for k, c in enumerate(cands):
        c['id'] = 'A%04d' % k
    json.dump(cands, open(AM + '/cands.json', 'w'), indent=0)
    by = {}
    for c in cands:
        by[c['kind']] = by.get(c['kind'], 0) + 1
    print(len(cands), 'candidates', by)


def run_group(cmd, cwd=None, env=None, timeout=900, shell=False):
    """run in its own process group; on timeout kill the whole group (a mutant may loop forever)"""
    import signal
    p = subprocess.Popen(cmd, cwd=cwd, env=env or ENV, shell=shell, stdout=subprocess.PIPE, stderr=subprocess.PIPE, start_new_session=True)
    try:
        o, e = p.communicate(timeout=timeout)
        return p.returncode, o, e
    except subprocess.TimeoutExpired:
        try:
            os.killpg(p.pid, signal.SIGKILL)
        except ProcessLookupError:
            pass
        o, e = p.communicate()
        return 124, o, e + b'\ntimeout'


def sh(cmd, cwd, timeout=900):
    code, o, e = run_group(cmd, cwd=cwd, timeout=timeout, shell=True)
    return code, (o + e).decode(errors='replace')


def worktree(k):
    w = '%s/wt-%d' % (AM, k)
    if not os.path.isdir(w):
        subprocess.run(['git', '-C', '/repo', 'worktree', 'add', '-q', '--detach', w, 'HEAD'], check=True)
        shutil.copy('/repo/Cargo.lock', w + '/Cargo.lock')
    return w


def apply(w, c):
    subprocess.run(['git', '-C', w, 'checkout', '-q', '--', 'src'], check=True)
    p = os.path.join(w, c['file'])
    lines = open(p).read().split('\n')
    assert lines[c['line'] - 1] == c['old'], (c['id'], 'source moved')
    lines[c['line'] - 1] = c['new']
    open(p, 'w').write('\n'.join(lines))


def tests(jobs):
    cands = json.load(open(AM + '/cands.json'))
    res_path = AM + '/tests.json'
    res = json.load(open(res_path)) if os.path.exists(res_path) else {}
    todo = [c for c in cands if c['id'] not in res]
    print(len(todo), 'to test,', len(res), 'done')
    import threading
    lock = threading.Lock()
    slots = list(range(jobs))

    def one(c):
        with lock:
            k = slots.pop()
        try:
            w = worktree(k)
            apply(w, c)
            feat = ' --features serde' if c['serde'] else ''
            code, out = sh('cargo build --offline --lib' + feat, w, 300)
            if code != 0:
                r = 'no_compile'
            else:
                code, out = sh('cargo test --offline --lib --tests' + feat, w, 600)
                if code != 0:
                    r = 'killed_by_tests'
                else:
                    code, out = sh('cargo test --workspace --no-fail-fast --offline', w, 900)
                    r = 'survivor' if code == 0 else 'killed_by_tests'
        except Exception as e:
            r = 'error: %s' % e
        with lock:
            slots.append(k)
            res[c['id']] = r
            if len(res) % 20 == 0:
                json.dump(res, open(res_path, 'w'))
                print(len(res), 'done;', sum(1 for v in res.values() if v == 'survivor'), 'survivors', flush=True)
    with ThreadPoolExecutor(jobs) as ex:
        list(ex.map(one, todo))
    json.dump(res, open(res_path, 'w'))
    surv = [c for c in cands if res.get(c['id']) == 'survivor']
    json.dump(surv, open(AM + '/survivors.json', 'w'), indent=0)
    cnt = {}
    for v in res.values():
        cnt[v.split(':')[0]] = cnt.get(v.split(':')[0], 0) + 1
    print(cnt)
    for k in range(jobs):
        subprocess.run(['git', '-C', '/repo', 'worktree', 'remove', '--force', '%s/wt-%d' % (AM, k)])


def checks(jobs):
    surv = json.load(open(AM + '/survivors.json'))
    res_path = AM + '/checks.json'
    res = json.load(open(res_path)) if os.path.exists(res_path) else {}
    todo = [c for c in surv if c['id'] not in res]
    print(len(todo), 'survivors to check,', len(res), 'done')
    import threading
    lock = threading.Lock()
    slots = list(range(jobs))

    def one(c):
        with lock:
            k = slots.pop()
        r = {'detected_by': None, 'class': None, 'ran': []}
        try:
            w = worktree(100 + k)
            apply(w, c)
            out = '%s/out-%s' % (AM, c['id'])
            shutil.rmtree(out, ignore_errors=True)
            os.makedirs(out)
            env = dict(ENV, VERIF_REPO_PATH=w, VERIF_OUT=out, VERIF_SCRATCH_BUILD=w + '/.pqsim-shadow', VERIF_WORKERS=str(max(4, 16 // jobs)))
            for chk in ORDER:
                code, so, se = run_group(['/verif/check', chk, 'quick'], env=env, timeout=1500)
                r['ran'].append((chk, code))
                if code == 1 and b'VIOLATION' in so:
                    m = re.search(rb'violation \[([a-z_0-9A-Z()]+)\]', se)
                    r['detected_by'] = chk
                    r['class'] = m.group(1).decode() if m else '?'
                    break
                if code == 124:
                    # the simulation did not finish: the change makes some operation loop forever
                    r['detected_by'] = chk
                    r['class'] = 'hang (no result within 25 min; killed)'
                    break
                if code not in (0, 1):
                    r['class'] = 'harness exit %d: %s' % (code, se.decode(errors='replace')[-300:])
            shutil.rmtree(out, ignore_errors=True)
        except Exception as e:
            r['class'] = 'error: %s' % e
        with lock:
            slots.append(k)
            res[c['id']] = r
            json.dump(res, open(res_path, 'w'))
            print(c['id'], c['file'], c['line'], c['what'], '->', r['detected_by'], r['class'], flush=True)
    with ThreadPoolExecutor(jobs) as ex:
        list(ex.map(one, todo))
    for k in range(jobs):
        subprocess.run(['git', '-C', '/repo', 'worktree', 'remove', '--force', '%s/wt-%d' % (AM, 100 + k)])
    report()


def classify(x):
    """why a surviving, unreported mutant changes nothing any listed property can see (by inspection)"""
    o, n = x['old'].strip(), x['new'].strip()
    if re.search(r'with_capacity\w*\((0|1)[,)]', o) and 'with_capacity' in n:
        return 'capacity only (initial capacity 0 -> 1)'
    if re.search(r'(shrink_to_fit|reserve(_exact)?)\(', o) and n == '{}':
        return 'capacity only (room of an internal vector, or no shrinking; capacity() reports the map, no upper bound is promised)'
    if 'log2_fast' in o or 'leading_zeros' in o or 'let rebuild' in o or 'len1' in o or o in ('false', 'return false;'):
        return 'strategy choice of extend (push each vs rebuild; invisible by C07; level parity unchanged where log2_fast feeds level())'
    if o == 'std::mem::swap(self, other);':
        return 'append without its swap optimisation (receiver priorities stay: within what C07 allows; still linear)'
    if 'self.iter = None' in o:
        return 'inner iterator dropped later (never used again)'
    if 'next()' in o and 'next_back' in n:
        return 'iter_mut of PriorityQueue yields in reverse map order (no order is promised for iter_mut)'
    if 'heapify' in o and 'up_heapify' in n:
        return 'more work, same result (up_heapify = bubble up, then heapify)'
    if ('Position(0)' in o and 'let mut pos' in o) or re.search(r'^\d+ =>', o) or 'unwrap_or' in o or 'self.len() <= 1' in o or 'hole.position()' in o or 'pos.0 < self.len()' in o:
        return 'dead value / unreachable case (overwritten initial value, duplicate match arm, guard implied by the level structure or by a checked get)'
    if re.search(r' (<|>|<=|>=) ', o) or o.startswith('<') or o.startswith('>'):
        return 'tie handling in a sift comparison (equal priorities exchanged or not: either is a valid heap)'
    return 'other'


def report():
    cands = json.load(open(AM + '/cands.json'))
    tests_r = json.load(open(AM + '/tests.json'))
    res = json.load(open(AM + '/checks.json')) if os.path.exists(AM + '/checks.json') else {}
    cnt = {}
    for v in tests_r.values():
        cnt[v.split(':')[0]] = cnt.get(v.split(':')[0], 0) + 1
    surv = [c for c in cands if tests_r.get(c['id']) == 'survivor']
    det = [c for c in surv if res.get(c['id'], {}).get('detected_by')]
    und = [c for c in surv if c['id'] in res and not res[c['id']].get('detected_by')]
    head = subprocess.run(['git', '-C', '/repo', 'rev-parse', '--short', 'HEAD'], stdout=subprocess.PIPE).stdout.decode().strip()
    L = ['# Systematic single-site mutation of /repo (' + head + ')', '',
         'Generated by `tools/automutate.py` (operators: relational/boolean/arithmetic operator replacement, min/max and up/down routine swaps, small constants, dropped or added negation, deleted call statements). A mutant *survives* when the crate compiles and the whole existing suite (81 tests + 15 doctests; with the serde feature for sites in `mod serde`) passes. Survivors are run through the quick checks in a fixed order, stopping at the first that reports.', '',
         '| candidates | do not compile | killed by the existing tests | survive the tests | of those: reported by a check | not reported |', '|---|---|---|---|---|---|',
         '| %d | %d | %d | %d | %d | %d |' % (len(cands), cnt.get('no_compile', 0), cnt.get('killed_by_tests', 0), len(surv), len(det), len(und)), '']
    byc = {}
    for c in det:
        byc.setdefault(res[c['id']]['detected_by'], []).append(c)
    L.append('First check to report (in the order ' + ' '.join(ORDER) + '): ' + ', '.join('%s %d' % (k, len(v)) for k, v in sorted(byc.items())))
    L += ['', '## Survivors of the tests that no check reports', '', 'Each was inspected by hand; the last column says why no listed property can tell it from the original (see DESIGN.md §8).', '']
    cnt2 = {}
    for c in und:
        cnt2[classify(c)] = cnt2.get(classify(c), 0) + 1
    for k, v in sorted(cnt2.items(), key=lambda kv: -kv[1]):
        L.append('* %d: %s' % (v, k))
    L += ['', '| id | site | change | line | class |', '|---|---|---|---|---|']
    for c in und:
        L.append('| %s | %s:%d | %s | `%s` | %s |' % (c['id'], c['file'], c['line'], c['what'], c['new'].strip().replace('|', '\\|')[:110], classify(c).split(' (')[0]))
    L += ['', '## Survivors of the tests reported by a check', '', '| id | site | change | first check | oracle class |', '|---|---|---|---|---|']
    for c in det:
        r = res[c['id']]
        L.append('| %s | %s:%d | %s | %s | %s |' % (c['id'], c['file'], c['line'], c['what'], r['detected_by'], r['class']))
    open('/verif/seeded/AUTOMUTATION.md', 'w').write('\n'.join(L) + '\n')
    json.dump({'candidates': cands, 'tests': tests_r, 'checks': res}, open('/verif/seeded/automutation.json', 'w'))
    print('\n'.join(L[:12]))


if __name__ == '__main__':
    cmd = sys.argv[1]
    jobs = int(sys.argv[sys.argv.index('-j') + 1]) if '-j' in sys.argv else 4
    {'gen': gen, 'tests': lambda: tests(jobs), 'checks': lambda: checks(jobs), 'report': report}[cmd]()
