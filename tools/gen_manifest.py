#!/usr/bin/env python3
"""Regenerates MANIFEST.json from the table below (kept in one place so that it stays valid)."""
import json, subprocess

HIST = "seeded simulation of operation histories against a reference model, oracles after every step"
CHECKS = {
 # id: (level, technique, text, note, built)
 "C01": ("exploration", HIST + " (fault-free configuration; guard abandonment, size_hint misreports and hasher choice are part of the history alphabet)",
         "Seeded search over histories of the whole public alphabet on a PriorityQueue; after every step peek/pop/pop_if/peek_mut are judged against the queue's own contents and a clone is drained completely. Sampling, not proof.",
         "Trusted: the reference model, the oracles, std/indexmap. One seed = one history; minimised replay files.", "3,4.C01"),
 "C02": ("exploration", HIST + " (fault-free configuration; both extraction ends interleaved by the scheduler)",
         "As C01 for DoublePriorityQueue with both ends, three drains of clones after every step (all-min, all-max, scheduler-interleaved). Sampling, not proof.",
         "Trusted: the reference model, the oracles, std/indexmap.", "3,4.C02"),
 "C03": ("exploration", HIST,
         "Every return value and the full contents (iter, len, lookups owned and borrowed) are compared with a map model after every step of seeded histories on both kinds. Sampling, not proof.",
         "Trusted: the reference model (BTreeMap), std/indexmap.", "3,4.C03"),
 "C04": ("exploration", HIST + "; leaked iter_mut/drain guards as injected faults; index-table invariant via the cfg-gated snapshot hook; abort classification of worker processes; one run in ten on the std-hasher constructors new() / with_capacity(n)",
         "No step of any fault-free history may panic or abort; the index tables the unchecked accesses trust are checked after every step; workers run with std's debug precondition checks so an out-of-bounds get_unchecked aborts and is classified; the thorough tier adds a Miri (Tree Borrows) batch of short histories, which is how the IterMut aliasing defect (D9) was found; both tiers run two fixed Miri scenarios for the recorded known finding (use of an iter_mut reference after the iterator is gone) and print KNOWN-FINDING for it. A run that makes no progress for VERIF_HANG_SECS is reported as a hang. Sampling, not proof.",
         "Trusted: std's ub_checks on get_unchecked (debug-assertions build), the snapshot hook being read-only.", "3,4.C04"),

 "C06": ("exploration", HIST + "; scheduler-chosen interleavings of next/next_back on the sorted iterators (episode scheduling)",
         "Sorted consumers of clones of every visited state: multiset equals contents and order monotone; the DoublePriorityQueue sorted iterator is advanced from both ends under seeded programs, each yield checked against the extreme of what remains, len before every call. Sampling, not proof.",
         "Trusted: the oracle's own multiset bookkeeping.", "3,4.C06"),
 "C08": ("exploration", HIST + "; predicate call logs; scheduler-chosen drop point of the iter_mut guard; latent-damage twin (a queue freshly built from the same contents runs the rest of the history too)",
         "retain/retain_mut predicate logs, kept sets and rewritten priorities, iter_mut prefixes with writes through every yielded reference, pop_if accept/reject with rewrites, each followed by the order oracles. Sampling, not proof.",
         "Trusted: rule-based predicates are functions of the element only.", "3,4.C08"),
 "C09": ("exploration", HIST + "; seeded programs of next/next_back/nth/nth_back/len/size_hint/for_each/count/last on iter_mut with every yielded reference written in the loop body and kept alive (address-distinctness and positional oracles); Miri batch in the thorough tier",
         "Every yielded (&mut item, &mut priority) is kept alive for the episode; addresses and ids must be pairwise distinct, size reports exact where an exact size is declared, None forever after exhaustion; directly, through &mut queue, rev and take. Sampling, not proof.",
         "Natively an aliasing duplicate is detected by address equality, not by a memory model.", "3,4.C09"),
 "C11": ("exploration", HIST + " biased to push_increase/push_decrease with lower/equal/higher offers, priorities stamped outside Ord; latent-damage twin",
         "Return value and full contents after every push_increase/push_decrease against the model, plus order oracles. Sampling, not proof.",
         "Trusted: the reference model.", "3,4.C11"),
 "C12": ("exploration", HIST + " with item payloads outside Eq/Hash and owned vs borrowed lookups",
         "Every update passes a key with a fresh payload; stored payloads (first inserted or written through get_mut/peek_*_mut/iter_mut/retain_mut/pop_if) are compared with the model after every step; borrowed and owned lookups must agree. Sampling, not proof.",
         "Trusted: the reference model.", "3,4.C12"),
 "C13": ("exploration", HIST + "; seeded programs (next, next_back, nth, nth_back, len, size_hint, for_each, count, last) on iter/into_iter/drain/sorted iterators checked position by position against the iterator's own forward order, and std adaptor compositions",
         "Each element exactly once then None forever, no element from both ends, len and size_hint exact before every call for every type that declares ExactSizeIterator, .len() and .count() of take/skip/zip/peekable/rev/enumerate/step_by/chain compositions under catch_unwind. Sampling, not proof.",
         "Trusted: std adaptor implementations.", "3,4.C13"),
 "C16": ("exploration", HIST + "; drain guards dropped or leaked (mem::forget) after scheduler-chosen programs; drop ledger; emptied-vs-fresh twin simulation",
         "After drain() — consumed fully, partially, not at all, or leaked — and after clear the queue must be empty; from there on a really fresh queue runs the remaining steps in lock-step and every return value must agree (so an unrelated defect cannot alarm); the drop ledger must balance except for what a guard forgotten by the harness still owns. Sampling, not proof.",
         "Trusted: the ledger (unique token per value).", "3,4.C16"),

 "C10": ("fault_enumeration", "crash-point enumeration: panic injected at every k-th callback of every class (cmp, hash, eq, clone, predicate, setter, source, loop body) and guard leaks, on seeded states, followed by seeded possibly faulty continuations; worker-process abort classification; drop ledger",
         "Per (state, operation) every crash point is enumerated; each crashed queue is driven through continuations steered at the damage and dropped. A violation needs a concrete breach: an abort classified as out-of-bounds unchecked access / crash signal / heap corruption, a double drop, or a leak no harness-forgotten guard explains. States, operations and continuations are sampled.",
         "Trusted: std's debug precondition checks on get_unchecked*, the token ledger. UB that is none of these needs Miri (./check C10 miri, thorough).", "3,4.C10"),

 "C07": ("exploration", HIST + " + differential execution of the same (receiver, pair sequence) under every class of legal size_hint report (simulated source seam), simulated memory ceiling",
         "A third of the runs are histories biased to extend/append/From/FromIterator/conversions against the model (first-wins / last-wins / append rule, other queue emptied and reusable, order oracles); a third execute one (state, pairs) case under 11-12 size_hint classes up to usize::MAX and require no panic or abort, identical outcome including item values, model priorities and a correctly ordered result; a third are latent-damage twins (a freshly built queue with the same contents runs the rest of the history too). Sampling, not proof.",
         "Trusted: the reference model; the 1 GiB per-request memory ceiling of the simulated allocator.", "3,4.C07"),

 "C05": ("exploration", "simulated clock = comparator ticks: every operation call is a request with a deadline in ticks, measured at pairs of sizes on seeded priority patterns (absolute deadlines and growth conditions)",
         "Each run measures > 400 individual calls (all single-element operations on elements taken from every heap level and driven to both extremes, peeks/lookups, all bulk rebuilds) at two sizes up to 2^16 (quick) / 2^20 (thorough); deadlines 12*ceil(log2(n+1))+16, 0 or 1, 10n+16, plus growth between the sizes. Sampling, not proof; says nothing about wall-clock time.",
         "Only Ord::cmp calls are counted; generous constants, the growth conditions carry the asymptotic claim.", "3,4.C05"),
 "C14": ("exploration", HIST + " + twin simulation: clone taken at a seeded point, lock-step and divergent continuations, same contents rebuilt through another history / capacity / hasher",
         "Clone == source (both directions), identical return values (ties included) under every subsequent step, mutating either never changes the other; queues with equal contents built through different histories, capacities and hashers compare equal, neighbours differing in one priority or one item compare unequal; reflexive, symmetric, transitive on the instances built. Sampling, not proof.",
         "Trusted: the reference model and the trace comparison.", "3,4.C14"),
 "C15": ("exploration", HIST + " + storage-fault injection on serialized queues (record duplication, loss, reordering, splicing, truncation, bit flips) and arbitrary pair sequences through JSON and a serde sequence deserializer with/without length hint; a length-prefixed binary storage format (stub of the harness: the writer stores the declared sequence length, the reader reports the stored count as its length hint) with count-field faults, truncation and bit flips",
         "Round trips from visited states in all four kind directions; any well-typed pair sequence with repeats yields Err or a valid queue holding every distinct item once with one of its priorities; damaged serializations (JSON text and length-prefixed binary images whose count field was overwritten or bit-flipped) yield Err or a valid, ordered, usable queue; never a panic and never a process abort on a failed allocation; round trips also through the length-prefixed writer/reader; zero-sized item and priority types. Sampling, not proof.",
         "The length-prefixed format is a stub standing in for bincode / MessagePack-style formats (not in the cargo cache).", "3,4.C15"),
 "C17": ("fault_enumeration", HIST + " + lock-step twin simulation with capacity operations, and enumeration of allocation-failure points inside try_reserve* through the simulated allocator; the std-hasher constructors new() / with_capacity(n) against the reference model",
         "A twin that receives with_capacity/reserve/reserve_exact/try_reserve/try_reserve_exact/shrink_to_fit calls must return identical values to one that never does; capacity inequalities after success; requests near usize::MAX and above the simulated memory ceiling must be Err without panic; for one try_reserve per history every allocation index is failed once and persistently: never a panic or abort, Err or Ok-with-the-guarantee, behaviour afterwards unchanged. Histories and insertion points are sampled.",
         "Trusted: the global-allocator wrapper; allocation failure is injected only inside try_reserve*.", "3,4.C17"),
 "C18": ("exploration", "one explicit history executed under 9 hasher configurations (4 SipHash keyings, multiplicative via with_hasher and with_default_hasher, all-colliding, a hasher with a specialised hash_one, real RandomState), return-value traces compared modulo tie choice",
         "The trace of every return value must agree across all hashers (priority of extracted elements must agree, the item may differ among ties); a panic or oracle failure under one hasher only is a violation. Sampling, not proof.",
         "RandomState keys cannot be controlled; everything else derives from the seed.", "3,4.C18"),
}

def main():
    props = [json.loads(l) for l in open('/verif/properties.jsonl')]
    checks, na = [], []
    for p in props:
        pid = p['id']
        if pid in CHECKS:
            level, tech, text, note, ref = CHECKS[pid]
            checks.append({
                "property_id": pid,
                "quick_cmd": f"./check {pid} quick",
                "thorough_cmd": f"./check {pid} thorough",
                "evidence_file": f"/verif/evidence/{pid}.json",
                "replay_cmd_template": "./check replay {path}",
                "engine": "pqsim",
                "level_claimed": {"category": level, "text": text, "design_ref": "DESIGN.md §" + ref},
                "level_note": note,
                "technique": tech,
            })
        else:
            na.append({"property_id": pid, "reason": "check under construction in this round (see DESIGN.md §4); not claimed until its check is committed"})
    commits = subprocess.run(['git','-C','/repo','log','--format=%H %s'],capture_output=True,text=True).stdout.strip().split('\n')
    hook_commits = [c.split()[0] for c in commits if 'verif snapshot' in c]
    m = {
        "version": 1,
        "setup_cmd": "./check build",
        "hooks": {
            "guard": "priority_queue_verif",
            "enable": "rustc --cfg priority_queue_verif, set in /verif/sim/.cargo/config.toml (build.rustflags); the simulator depends on the crate by path /repo with feature serde",
            "baseline_off_cmd": "cd /repo && cargo test --workspace --no-fail-fast --offline",
            "source_commits": hook_commits,
            "add_only": True,
        },
        "engines": [{"name": "pqsim", "path": "/verif/sim", "serves_properties": sorted(CHECKS.keys()),
                     "kind_free_text": "deterministic simulator: seeded scheduler over client steps and fault plans, instrumented item/priority/hasher/allocator/source seams, reference model, worker processes with abort classification, delta-debugging shrinker, replay files"}],
        "checks": checks,
        "not_applicable": na,
        "notes": "All checks: ./check <Cxx> <quick|thorough>; VERIF_SEED (default 1) selects the PRNG seed; exit 0/1/2 = held / VIOLATION printed / harness error. Thorough tiers of C04 C07 C08 C09 C10 C13 C15 C16 C17 end with a single-process batch of the same engine under Miri (Tree Borrows); ./check <Cxx> miri runs that batch alone; ./check selftest determinism compares 1-process and 16-process executions. Known findings: /verif/known_findings.json (one known entry: C08, late write through an iter_mut reference). Independently written breaking changes and which check reports which: /verif/seeded/KILL_MATRIX.md.",
    }
    json.dump(m, open('/verif/MANIFEST.json','w'), indent=1)

if __name__ == '__main__':
    main()
