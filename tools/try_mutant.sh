#!/bin/bash
# tools/try_mutant.sh <name> <patch.diff> <Cxx> [<Cxx>...]
# Sensitivity experiment: apply a patch to a scratch worktree of /repo (never to /repo itself),
# build the simulator against it and run the quick checks named; results go to /tmp/mt-out/<name>.
# Prints one line per check: <name> <Cxx> exit=<code> <seconds>s. Removes the worktree afterwards.
set -u
name="$1"; patch="$2"; shift 2
BASEID="$name"
W="/tmp/mt-$name"
OUT="/tmp/mt-out/$name"
rm -rf "$OUT"; mkdir -p "$OUT"
git -C /repo worktree remove --force "$W" >/dev/null 2>&1
base=HEAD; [ -f "/verif/seeded/$BASEID/base_commit" ] && base=$(cat "/verif/seeded/$BASEID/base_commit")
git -C /repo worktree add -q --detach "$W" "$base" || exit 2
cp /repo/Cargo.lock "$W/" 2>/dev/null
if ! git -C "$W" apply "$patch"; then echo "$name PATCH-DOES-NOT-APPLY"; git -C /repo worktree remove --force "$W"; exit 2; fi
for c in "$@"; do
  t0=$(date +%s.%N)
  VERIF_REPO_PATH="$W" VERIF_OUT="$OUT" VERIF_SCRATCH_BUILD="$W/.pqsim-shadow" /verif/check "$c" quick > "$OUT/$c.stdout" 2> "$OUT/$c.stderr"
  code=$?
  t1=$(date +%s.%N)
  printf "%s %s exit=%s %.1fs %s\n" "$name" "$c" "$code" "$(echo "$t1 - $t0" | bc)" "$(grep -m1 -o 'violation \[[a-z_0-9]*\]' "$OUT/$c.stderr" | head -1)"
done
git -C /repo worktree remove --force "$W"
