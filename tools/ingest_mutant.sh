#!/bin/bash
# tools/ingest_mutant.sh <mutant-dir> <id> <Cxx> [<Cxx>...]
# Confirms a candidate breaking change independently (in a scratch worktree of /repo, never in
# /repo): demo passes on the unchanged tree; with the patch the 81 existing tests still pass and
# the demo fails. Then runs the named quick checks against the patched copy. Writes
# /tmp/mt-out/<id>/summary.txt; copies patch/demo/meta to /verif/seeded/<id>/ when confirmed.
set -u
src="$1"; id="$2"; shift 2
BASEID="$id"
W="/tmp/mt-$id"; OUT="/tmp/mt-out/$id"
rm -rf "$OUT"; mkdir -p "$OUT"
export CARGO_NET_OFFLINE=true
unset RUST_BACKTRACE
git -C /repo worktree remove --force "$W" >/dev/null 2>&1
base=HEAD; [ -f "/verif/seeded/$BASEID/base_commit" ] && base=$(cat "/verif/seeded/$BASEID/base_commit")
git -C /repo worktree add -q --detach "$W" "$base" || exit 2
cp /repo/Cargo.lock "$W/"
feat=""
grep -q "features serde\|--features=serde\|features \"serde\"" "$src/meta.json" && feat="--features serde"
# a change that only shows without debug assertions says so in its demo command
grep -q -- "--release" "$src/meta.json" && feat="$feat --release"
demo="demo_$(echo "$id" | tr 'A-Z-' 'a-z_')"
cp "$src/demo.rs" "$W/tests/$demo.rs"
( cd "$W" && timeout 600 cargo test --offline $feat --test "$demo" > "$OUT/demo_clean.log" 2>&1 ); clean=$?
if ! git -C "$W" apply "$src/patch.diff" 2> "$OUT/apply.log"; then echo "$id PATCH-DOES-NOT-APPLY" | tee "$OUT/summary.txt"; git -C /repo worktree remove --force "$W"; exit 2; fi
( cd "$W" && timeout 600 cargo test --offline $feat --test "$demo" > "$OUT/demo_mut.log" 2>&1 ); mut=$?
rm -f "$W/tests/$demo.rs"
( cd "$W" && timeout 900 cargo test --workspace --no-fail-fast --offline > "$OUT/suite.log" 2>&1 ); suite=$?
passed=$(grep -E "^test result" "$OUT/suite.log" | awk '{p+=$4; f+=$6} END{print p"/"f}')
confirmed=no
[ "$clean" = 0 ] && [ "$mut" != 0 ] && [ "$suite" = 0 ] && confirmed=yes
echo "$id confirmed=$confirmed demo_clean_exit=$clean demo_mutant_exit=$mut suite_exit=$suite suite_passed/failed=$passed" | tee "$OUT/summary.txt"
for c in "$@"; do
  t0=$(date +%s.%N)
  VERIF_REPO_PATH="$W" VERIF_OUT="$OUT" VERIF_SCRATCH_BUILD="$W/.pqsim-shadow" /verif/check "$c" quick > "$OUT/$c.stdout" 2> "$OUT/$c.stderr"
  code=$?
  t1=$(date +%s.%N)
  printf "%s %s exit=%s %.1fs %s\n" "$id" "$c" "$code" "$(echo "$t1 - $t0" | bc)" "$(grep -m1 -o 'violation \[[a-z_0-9]*\]' "$OUT/$c.stderr" | head -1)" | tee -a "$OUT/summary.txt"
done
if [ "$confirmed" = yes ]; then
  mkdir -p "/verif/seeded/$id"
  cp "$src/patch.diff" "$src/demo.rs" "/verif/seeded/$id/"
  cp "$src/meta.json" "/verif/seeded/$id/meta.agent.json"
  cp "$OUT/summary.txt" "/verif/seeded/$id/runs.txt"
fi
git -C /repo worktree remove --force "$W"
